"""CrossHair cross-check (bug-hunting only; a 'not confirmed' counts for nothing): contracts on the REAL check_groups and
_str_to_gemini of /repo, with symbolic ints / strings."""
import sys
import os
sys.path.insert(0, os.environ.get("SYMX_REPO", "/repo"))
from typing import List
from gemclus.sparse._base_sparse import check_groups
from gemclus.gemini._utils import _str_to_gemini, AVAILABLE_GEMINIS


def groups_accept_iff_valid(a: int, b: int, c: int, d: int) -> bool:
    """
    pre: 1 <= d <= 3
    pre: -1 <= a <= 3 and -1 <= b <= 3 and -1 <= c <= 3
    post: _
    """
    groups = [[a, b], [c]]
    flat = [a, b, c]
    valid = all(0 <= v < d for v in flat) and len(set(flat)) == 3
    try:
        out = check_groups(groups, d)
        accepted = True
    except ValueError:
        accepted = False
        out = None
    if accepted != valid:
        return False
    if accepted:
        members = sorted(x for g in out for x in g)
        return members == list(range(d)) and out[:2] == groups
    return True


def registry_accept_iff_listed(name: str) -> bool:
    """
    pre: len(name) <= 6
    post: _
    """
    try:
        g = _str_to_gemini(name)
        ok = True
    except ValueError:
        ok = False
    return ok == (name in AVAILABLE_GEMINIS) and (not ok or g is not None)
