"""symx.explore -- re-execution DFS over the decisions taken by bool(SymBool), and property queries.

A *run* is one Python call of the harness body.  Decisions are replayed from a prefix and extended; the other
branch is queued when both are feasible under (assumptions AND path condition).  Feasibility uses one incremental
z3 instance (cheap, may answer unknown -> branch kept).  PROPERTY queries never use that instance: they go to a fresh
solver (see DESIGN 3.1) via ``solve.check``.
"""
from __future__ import annotations

import time

import z3

from . import core
from .core import CTX


class PathAbort(BaseException):
    """raised to abandon an infeasible / over-deep path (BaseException so that `except Exception` does not eat it)"""


class PathError:
    """the symbolically executed code raised an ordinary exception on this path"""

    def __init__(self, exc, tb):
        self.exc = exc
        self.tb = tb

    def __repr__(self):
        return f"PathError({type(self.exc).__name__}: {self.exc})"


class Explorer:
    def __init__(self, max_paths=20000, max_depth=400, feas_timeout_ms=1500, assumptions_fn=None):
        self.max_paths = max_paths
        self.max_depth = max_depth
        self.feas_timeout_ms = feas_timeout_ms
        self.paths_done = 0
        self.truncated = False
        import os
        d = os.environ.get("SYMX_DEADLINE")
        self.deadline = float(d) if d else None
        self.depth_hits = 0
        self.solver = None
        self.trace = None
        self.prefix = None
        self.pc = None
        self.decided = None

    # -- decisions -----------------------------------------------------------------------------------------------
    def _check(self, extra):
        CTX.stats["feas_checks"] += 1
        self.solver.push()
        self.solver.add(extra)
        r = self.solver.check()
        self.solver.pop()
        if r == z3.unknown:
            CTX.stats["feas_unknown"] += 1
        return r

    def implied(self, goal):
        """is `goal` implied by assumptions + path condition?  (unknown -> False)"""
        key = ("imp", goal.get_id())
        if key in self.decided:
            return self.decided[key]
        r = self._check(z3.Not(goal)) == z3.unsat
        self.decided[key] = r
        CTX._keep.append(goal)
        return r

    def decide(self, t):
        tid = t.get_id()
        if tid in self.decided:
            return self.decided[tid]
        if z3.is_true(t):
            return True
        if z3.is_false(t):
            return False
        i = len(self.trace)
        if i < len(self.prefix):
            val = self.prefix[i][0]
            self.trace.append(self.prefix[i])
        else:
            if i >= self.max_depth:
                self.depth_hits += 1
                raise PathAbort("max decision depth")
            ft = self._check(t)
            if ft == z3.unsat:
                val = False
                self.trace.append((False, True))
                CTX.stats["forced"] += 1
            else:
                ff = self._check(z3.Not(t))
                if ff == z3.unsat:
                    val = True
                    self.trace.append((True, True))
                    CTX.stats["forced"] += 1
                else:
                    val = True
                    self.trace.append((True, False))
                    self.todo.append(list(self.trace[:-1]) + [(False, False)])
                    CTX.stats["decisions"] += 1
        c = t if val else z3.Not(t)
        self.solver.add(c)
        self.pc.append(c)
        self.decided[tid] = val
        CTX._keep.append(t)
        return val

    # -- driver --------------------------------------------------------------------------------------------------
    def run(self, body, setup=None):
        """yield (result, pc, trace) for every feasible path of body().  ``setup`` is called at the start of every
        path (after the context was reset) and must (re)create the symbolic inputs; it returns the argument of body."""
        self.todo = [[]]
        while self.todo:
            if self.paths_done >= self.max_paths or (self.deadline is not None and time.time() > self.deadline):
                self.truncated = True
                break
            self.prefix = self.todo.pop()
            self.trace = []
            self.pc = []
            self.decided = {}
            core.reset()
            CTX.explorer = self
            self.solver = z3.Solver()
            self.solver.set("timeout", self.feas_timeout_ms)
            self._n_assumed = 0
            try:
                arg = setup() if setup is not None else None
                self._sync_assumptions()
                res = body(arg) if setup is not None else body()
            except PathAbort:
                continue
            except Exception as e:  # noqa: the code under test (or the engine) failed on this path
                import traceback
                res = PathError(e, traceback.format_exc()[-1500:])
            self.paths_done += 1
            yield res, list(self.pc), list(self.trace)
        CTX.explorer = None

    def _sync_assumptions(self):
        # assumptions added during the run (var(sign=...), SymInt ranges) must reach the feasibility solver
        n = len(CTX.assumptions)
        for a in CTX.assumptions[self._n_assumed:n]:
            self.solver.add(a)
        self._n_assumed = n


_orig_check = Explorer._check


def _check_sync(self, extra):
    self._sync_assumptions()
    return _orig_check(self, extra)


Explorer._check = _check_sync
