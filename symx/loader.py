"""symx.loader -- load the *current source text* of /repo's gemclus package for symbolic execution.

The package is loaded under the alias ``sx_gemclus`` (so the real ``gemclus`` stays importable, untouched, for
replays).  Every run reads the files from disk (no byte-code cache).  One AST transform is applied:

   a / b            ->  __sx_div__(a, b)     (int/int stays exact instead of rounding to a float)
   import gemclus…  ->  import sx_gemclus…   (absolute self-imports follow the alias)

and after execution the module global ``np`` is replaced by the proxy of symx.npx.  ``_utils.pyx`` is translated to
Python by stripping the Cython-only syntax (statements are left untouched).
"""
from __future__ import annotations

import ast
import hashlib
import importlib.abc
import importlib.machinery
import importlib.util
import os
import re
import sys

from . import npx

REPO = os.environ.get("SYMX_REPO", "/repo")
ALIAS = "sx_gemclus"
SOURCES = {}  # module name -> (path, sha256)


class _Tx(ast.NodeTransformer):
    def visit_BinOp(self, node):
        self.generic_visit(node)
        if isinstance(node.op, ast.Div):
            return ast.copy_location(
                ast.Call(func=ast.Name(id="__sx_div__", ctx=ast.Load()), args=[node.left, node.right], keywords=[]), node)
        return node

    def visit_ImportFrom(self, node):
        if node.level == 0 and node.module and (node.module == "gemclus" or node.module.startswith("gemclus.")):
            node.module = ALIAS + node.module[len("gemclus"):]
        return node

    def visit_Import(self, node):
        for a in node.names:
            if a.name == "gemclus" or a.name.startswith("gemclus."):
                a.name = ALIAS + a.name[len("gemclus"):]
        return node


def translate_pyx(text):
    """mechanical Cython -> Python: drop cimport/cdef declarations and C types, keep every statement."""
    out = []
    lines = text.split("\n")
    i = 0
    ctype = r"(?:np\.float64_t|np\.int64_t|np\.ndarray\[[^\]]*\]|Py_ssize_t|bint|int|double|Split)(?:\[[:,\s]*\])?"
    while i < len(lines):
        ln = lines[i]
        s = ln.strip()
        if s.startswith("cimport ") or s == "np.import_array()":
            i += 1
            continue
        if s.startswith("cdef class "):
            out.append(ln.replace("cdef class", "class"))
            i += 1
            continue
        if s.startswith("cdef readonly "):
            i += 1
            continue
        m = re.match(r"^(\s*)(cdef|cpdef)\s+(?:" + ctype + r"\s+)?(\w+)\s*\((.*)$", ln)
        if m and not s.endswith(";"):
            # function header, possibly spanning several lines up to the closing "):"
            hdr = ln
            while not re.search(r"\)\s*(->\s*\w+\s*)?:\s*$", hdr):
                i += 1
                hdr += "\n" + lines[i]
            indent, name, rest = m.group(1), m.group(3), hdr[hdr.index("(") + 1:]
            rest = _strip_types(rest, ctype)
            out.append(f"{indent}def {name}({rest}")
            i += 1
            continue
        if re.match(r"^\s*def\s+\w+\s*\(", ln):
            hdr = ln
            while not re.search(r"\)\s*(->\s*\w+\s*)?:\s*$", hdr):
                i += 1
                hdr += "\n" + lines[i]
            head, rest = hdr[:hdr.index("(") + 1], hdr[hdr.index("(") + 1:]
            out.append(head + _strip_types(rest, ctype))
            i += 1
            continue
        if s.startswith("cdef "):
            # local declaration; keep an initialiser if there is one  (cdef T x = expr)
            m2 = re.match(r"^(\s*)cdef\s+" + ctype + r"\s+(\w+)\s*=\s*(.*)$", ln)
            if m2:
                out.append(f"{m2.group(1)}{m2.group(2)} = {m2.group(3)}")
            i += 1
            continue
        out.append(ln)
        i += 1
    return "\n".join(out)


def _strip_types(params, ctype):
    # remove "ctype " in front of parameter names, and the return annotation
    params = re.sub(r"\)\s*->\s*\w+\s*:", "):", params)
    params = re.sub(r"(?<![\w.])(?:np\.float64_t|np\.int64_t|Py_ssize_t)\[[:,\s]*\]\s*(?=[A-Za-z_])", "", params)
    params = re.sub(r"(?<![\w.])np\.ndarray\[[^\]]*\]\s*(?=[A-Za-z_])", "", params)
    params = re.sub(r"(?<![\w.])(?:np\.float64_t|np\.int64_t|Py_ssize_t|bint|int|double|Split)\s+(?=[A-Za-z_])", "", params)
    return params


class _Finder(importlib.abc.MetaPathFinder, importlib.abc.Loader):
    def find_spec(self, fullname, path=None, target=None):
        if fullname != ALIAS and not fullname.startswith(ALIAS + "."):
            return None
        rel = fullname[len(ALIAS):].lstrip(".").replace(".", "/")
        base = os.path.join(REPO, "gemclus", rel) if rel else os.path.join(REPO, "gemclus")
        if os.path.isdir(base) and os.path.exists(os.path.join(base, "__init__.py")):
            spec = importlib.machinery.ModuleSpec(fullname, self, origin=os.path.join(base, "__init__.py"), is_package=True)
            spec.submodule_search_locations = [base]
            return spec
        for ext in (".py", ".pyx"):
            if os.path.exists(base + ext):
                return importlib.machinery.ModuleSpec(fullname, self, origin=base + ext)
        return None

    def create_module(self, spec):
        return None

    def exec_module(self, module):
        path = module.__spec__.origin
        with open(path, "r") as fh:
            text = fh.read()
        SOURCES[module.__name__] = (path, hashlib.sha256(text.encode()).hexdigest())
        if path.endswith(".pyx"):
            text = translate_pyx(text)
        tree = ast.parse(text, filename=path)
        tree = _Tx().visit(tree)
        ast.fix_missing_locations(tree)
        code = compile(tree, path, "exec", dont_inherit=True)
        module.__dict__["__sx_div__"] = npx.sx_div
        module.__file__ = path
        exec(code, module.__dict__)
        if "np" in module.__dict__:
            module.__dict__["np"] = npx.NPX
        if "csgraph" in module.__dict__:
            module.__dict__["csgraph"] = npx.CsgraphProxy(module.__dict__["csgraph"])
        if "softmax" in module.__dict__:
            module.__dict__["__real_softmax__"] = module.__dict__["softmax"]
            module.__dict__["softmax"] = npx.softmax_stub


_FINDER = None


def install(repo=None):
    """(re)install the finder and forget any previously loaded sx_gemclus modules, so the next import re-reads disk."""
    global _FINDER, REPO
    if repo is not None:
        REPO = repo
    for k in [k for k in sys.modules if k == ALIAS or k.startswith(ALIAS + ".")]:
        del sys.modules[k]
    SOURCES.clear()
    if _FINDER is None:
        _FINDER = _Finder()
        sys.meta_path.insert(0, _FINDER)
    return _FINDER


def load(name):
    """import sx_gemclus.<name> (e.g. 'gemini._fdivergences')"""
    install_if_needed()
    return importlib.import_module(ALIAS + ("." + name if name else ""))


def install_if_needed():
    if _FINDER is None:
        install()


def real(name):
    """the real, unmodified module gemclus.<name> from REPO (for replays)."""
    if REPO not in sys.path:
        sys.path.insert(0, REPO)
    g = sys.modules.get("gemclus")
    if g is not None and not os.path.abspath(getattr(g, "__file__", "") or "").startswith(os.path.abspath(REPO) + os.sep):
        # an installed copy was imported first (editable install of another checkout): drop it, the tree under REPO is the subject
        for k in [k for k in sys.modules if k == "gemclus" or k.startswith("gemclus.")]:
            del sys.modules[k]
    return importlib.import_module("gemclus" + ("." + name if name else ""))


def source_info():
    return {k: {"path": v[0], "sha256": v[1]} for k, v in sorted(SOURCES.items())}
