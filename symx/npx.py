"""symx.npx -- the `np` seen by the symbolically executed GemClus modules.

Everything not listed here is real NumPy operating on dtype=object arrays whose elements are symx values; the
object loops dispatch to the Python operators of ``Rat`` / ``SymBool`` (comparisons -> decisions -> forks).
"""
from __future__ import annotations

import math
from fractions import Fraction

import numpy as _np

from . import core
from .core import Rat, K, to_rat, UndefinedValue, SymBool


def _is_sym_array(a):
    return isinstance(a, _np.ndarray) and a.dtype == object


def obj(a):
    """object ndarray of Rats from any numeric array-like (floats become the exact rational they denote)."""
    a = _np.asarray(a, dtype=object) if not isinstance(a, _np.ndarray) else a
    out = _np.empty(a.shape, dtype=object)
    flat = out.reshape(-1)
    src = a.reshape(-1)
    for i in range(src.shape[0]):
        v = src[i]
        if isinstance(v, (Rat, UndefinedValue)):
            flat[i] = v
        else:
            r = to_rat(v)
            flat[i] = v if r is NotImplemented else r
    return out


def _elementwise(fn):
    def g(x, *args, out=None, **kw):
        if isinstance(x, _np.ndarray):
            if x.dtype != object:
                # plain numeric data: keep it exact
                x = obj(x)
            res = _np.empty(x.shape, dtype=object)
            rf = res.reshape(-1)
            xf = x.reshape(-1)
            for i in range(xf.shape[0]):
                rf[i] = fn(xf[i])
            if out is not None:
                out[...] = res
                return out
            return res
        if isinstance(x, (list, tuple)):
            return g(_np.asarray(x, dtype=object))
        return fn(x)
    return g


def _sq(x):
    r = to_rat(x)
    if r is NotImplemented:
        return x.sqrt()
    return core.sym_sqrt(r)


def _lg(x):
    r = to_rat(x)
    if r is NotImplemented:
        return x.log()
    return core.sym_log(r)


def _ex(x):
    r = to_rat(x)
    if r is NotImplemented:
        return x.exp()
    return core.sym_exp(r)


def _ab(x):
    r = to_rat(x)
    if r is NotImplemented:
        return abs(x)
    return core.sym_abs(r)


def _sg(x):
    r = to_rat(x)
    if r is NotImplemented:
        return x
    return core.sym_sign(r)


def _binary(fn):
    def g(a, b, *args, out=None, **kw):
        if isinstance(a, _np.ndarray) or isinstance(b, _np.ndarray):
            a2 = a if isinstance(a, _np.ndarray) else _np.asarray(a, dtype=object)
            b2 = b if isinstance(b, _np.ndarray) else _np.asarray(b, dtype=object)
            if a2.dtype != object:
                a2 = obj(a2)
            if b2.dtype != object:
                b2 = obj(b2)
            bc = _np.broadcast(a2, b2)
            res = _np.empty(bc.shape, dtype=object)
            rf = res.reshape(-1)
            for i, (u, v) in enumerate(bc):
                rf[i] = fn(u, v)
            if out is not None:
                out[...] = res
                return out
            return res
        return fn(a, b)
    return g


def _mx(u, v):
    u2, v2 = to_rat(u), to_rat(v)
    if u2 is NotImplemented or v2 is NotImplemented:
        return u if u >= v else v
    if isinstance(u2, float) or isinstance(v2, float):
        return u2 if u2 >= v2 else v2
    return u2 if bool(u2 >= v2) else v2


def _mn(u, v):
    u2, v2 = to_rat(u), to_rat(v)
    if u2 is NotImplemented or v2 is NotImplemented:
        return u if u <= v else v
    if isinstance(u2, float) or isinstance(v2, float):
        return u2 if u2 <= v2 else v2
    return u2 if bool(u2 <= v2) else v2


class _Linalg:
    def __getattr__(self, name):
        return getattr(_np.linalg, name)

    @staticmethod
    def norm(x, ord=None, axis=None, keepdims=False):
        x = _np.asarray(x)
        if x.dtype != object:
            x = obj(x)
        if ord not in (None, 2, "fro"):
            raise NotImplementedError("norm ord=%r" % (ord,))
        # numpy's dispatch: a matrix norm when axis is a pair, or axis is None and ord is given on a 2-D array
        if isinstance(axis, (tuple, list)) and len(axis) == 1:
            axis = axis[0]
        matrix = (isinstance(axis, (tuple, list)) and len(axis) == 2) or (axis is None and ord is not None and x.ndim == 2)
        if axis is None and ord is not None and x.ndim not in (1, 2):
            raise ValueError("Improper number of dimensions to norm.")
        if ord == "fro" and not matrix:
            raise ValueError("Invalid norm order 'fro' for vectors")
        if matrix and ord == 2:
            dims_ = tuple(x.shape[a] for a in (axis if axis is not None else (0, 1)))
            if min(dims_) > 1:
                # the spectral norm (largest singular value) is not a rational/radical term of the entries
                raise NotImplementedError("spectral norm of a %dx%d block" % dims_)
        if isinstance(axis, list):
            axis = tuple(axis)
        sq = x * x
        s = sq.sum(axis=axis, keepdims=keepdims)
        return NPX.sqrt(s)


class _NPX:
    """module-like proxy"""
    linalg = _Linalg()

    def __getattr__(self, name):
        return getattr(_np, name)

    # -- constructors: object arrays of exact rationals unless an integer / bool dtype is requested
    @staticmethod
    def _want_obj(dtype):
        if dtype is None:
            return True
        try:
            k = _np.dtype(dtype).kind
        except TypeError:
            return False
        return k == "f"

    def zeros(self, shape, dtype=None, **kw):
        if self._want_obj(dtype):
            a = _np.empty(shape, dtype=object)
            a.fill(K(0))
            return a
        return _np.zeros(shape, dtype=dtype, **kw)

    def ones(self, shape, dtype=None, **kw):
        if self._want_obj(dtype):
            a = _np.empty(shape, dtype=object)
            a.fill(K(1))
            return a
        return _np.ones(shape, dtype=dtype, **kw)

    def empty(self, shape, dtype=None, **kw):
        if self._want_obj(dtype):
            return _np.empty(shape, dtype=object)
        return _np.empty(shape, dtype=dtype, **kw)

    def full(self, shape, fill_value, dtype=None, **kw):
        if self._want_obj(dtype):
            a = _np.empty(shape, dtype=object)
            a.fill(to_rat(fill_value))
            return a
        return _np.full(shape, fill_value, dtype=dtype, **kw)

    def eye(self, N, M=None, k=0, dtype=None, **kw):
        if self._want_obj(dtype):
            return obj(_np.eye(N, M, k, dtype=int))
        return _np.eye(N, M, k, dtype=dtype, **kw)

    def zeros_like(self, a, dtype=None, shape=None, **kw):
        a = _np.asarray(a)
        if dtype is None and a.dtype.kind in "iub":
            return _np.zeros_like(a, shape=shape)          # an integer / boolean prototype gives an integer / boolean array, as in NumPy
        return self.zeros(a.shape if shape is None else shape, dtype=dtype)

    def ones_like(self, a, dtype=None, shape=None, **kw):
        a = _np.asarray(a)
        if dtype is None and a.dtype.kind in "iub":
            return _np.ones_like(a, shape=shape)
        return self.ones(a.shape if shape is None else shape, dtype=dtype)

    def linspace(self, start, stop, num=50, dtype=None, **kw):
        return obj(_np.linspace(start, stop, num, **kw))

    # -- element-wise
    sqrt = staticmethod(_elementwise(_sq))
    log = staticmethod(_elementwise(_lg))
    exp = staticmethod(_elementwise(_ex))
    abs = staticmethod(_elementwise(_ab))
    absolute = abs
    sign = staticmethod(_elementwise(_sg))
    maximum = staticmethod(_binary(_mx))
    minimum = staticmethod(_binary(_mn))

    @staticmethod
    def square(x):
        return x * x

    def clip(self, a, a_min=None, a_max=None, out=None, **kw):
        r = a
        if a_min is not None:
            r = self.maximum(r, a_min)
        if a_max is not None:
            r = self.minimum(r, a_max)
        if out is not None:
            out[...] = r
            return out
        return r

    @staticmethod
    def isnan(x):
        def f(v):
            if isinstance(v, UndefinedValue):
                return True
            if isinstance(v, float):
                return math.isnan(v)
            return False
        if isinstance(x, _np.ndarray):
            if x.dtype != object:
                return _np.isnan(x)
            return _np.array([f(v) for v in x.reshape(-1)], dtype=bool).reshape(x.shape)
        if isinstance(x, (Rat, UndefinedValue)):
            return f(x)
        if hasattr(x, "__sx_isnan__"):
            return x.__sx_isnan__()
        return _np.isnan(x)

    @staticmethod
    def isfinite(x):
        def f(v):
            if isinstance(v, UndefinedValue):
                return False
            if isinstance(v, float):
                return math.isfinite(v)
            return True
        if isinstance(x, _np.ndarray):
            if x.dtype != object:
                return _np.isfinite(x)
            return _np.array([f(v) for v in x.reshape(-1)], dtype=bool).reshape(x.shape)
        if isinstance(x, (Rat, UndefinedValue)):
            return f(x)
        return _np.isfinite(x)

    def isclose(self, a, b, rtol=1e-05, atol=1e-08, equal_nan=False):
        def f(u, v):
            u2, v2 = to_rat(u), to_rat(v)
            if u2 is NotImplemented or v2 is NotImplemented or isinstance(u2, float) or isinstance(v2, float):
                return bool(_np.isclose(float(u), float(v), rtol=rtol, atol=atol))
            return bool(core.sym_abs(u2 - v2) <= to_rat(atol) + to_rat(rtol) * core.sym_abs(v2))
        r = _binary(f)(a, b)
        if isinstance(r, _np.ndarray):
            return r.astype(bool)
        return r

    def allclose(self, a, b, rtol=1e-05, atol=1e-08, equal_nan=False):
        return bool(_np.all(self.isclose(a, b, rtol=rtol, atol=atol)))

    @staticmethod
    def flatnonzero(a):
        return NPX.nonzero(_np.asarray(a).reshape(-1))[0]

    @staticmethod
    def count_nonzero(a, axis=None):
        a = _np.asarray(a)
        if a.dtype == object:
            b = _np.array([bool(to_rat(v) != 0) for v in a.reshape(-1)], dtype=bool).reshape(a.shape)
            return _np.count_nonzero(b, axis=axis)
        return _np.count_nonzero(a, axis=axis)

    @staticmethod
    def nonzero(a):
        a = _np.asarray(a)
        if a.dtype == object:
            b = _np.array([bool(to_rat(v) != 0) for v in a.reshape(-1)], dtype=bool).reshape(a.shape)
            return _np.nonzero(b)
        return _np.nonzero(a)


NPX = _NPX()


def sx_div(a, b):
    """`a / b` of the source: exact when both sides are exact numbers (int / int must not round)."""
    if isinstance(a, (int, Fraction)) and not isinstance(a, bool) and isinstance(b, (int, Fraction)) and not isinstance(b, bool):
        if b == 0:
            return a / b
        return Fraction(a) / Fraction(b)
    if isinstance(a, float) and isinstance(b, (int, Fraction)) and not isinstance(b, bool) and a == int(a) and b != 0 and abs(a) < 2 ** 53:
        return Fraction(int(a)) / Fraction(b)
    if isinstance(a, _np.ndarray) and a.dtype.kind == "f" and isinstance(b, (int, _np.integer)):
        return obj(a) / int(b)
    if isinstance(a, _np.integer) and isinstance(b, (int, _np.integer)) and b != 0:
        return Fraction(int(a)) / Fraction(int(b))
    if isinstance(a, (int, _np.integer)) and not isinstance(a, bool) and isinstance(b, _np.integer) and b != 0:
        return Fraction(int(a)) / Fraction(int(b))
    return a / b


def softmax_stub(X, copy=True):
    """contract stub for sklearn.utils.extmath.softmax: p_ik = exp(h_ik) / sum_j exp(h_ij)
    (the max-subtraction of the real implementation is a float-stability device; in exact arithmetic it cancels)."""
    X = _np.asarray(X)
    if X.dtype != object:
        X = obj(X)
    E = NPX.exp(X)
    S = E.sum(axis=1, keepdims=True)
    return E / S


def to_float_array(a):
    """concrete float array from an object array whose entries are all constants (C boundary: scipy, POT, ...)."""
    a = _np.asarray(a)
    if a.dtype != object:
        return a
    out = _np.empty(a.shape, dtype=float)
    of = out.reshape(-1)
    for i, v in enumerate(a.reshape(-1)):
        of[i] = float(v)        # raises TypeError for a genuinely symbolic entry
    return out


class CsgraphProxy:
    """scipy.sparse.csgraph on concrete matrices that happen to be stored as object arrays of constants"""

    def __init__(self, real):
        self._real = real

    def __getattr__(self, name):
        f = getattr(self._real, name)
        if not callable(f):
            return f

        def g(m, *a, **kw):
            return f(to_float_array(m), *a, **kw)
        return g
