"""symx.selftest -- differential tests of the engine's trusted base (normal form, expansion, atoms, differentiation, proxy).

Random expression trees are built twice: with symx values and with exact Fractions / floats; the symbolic result evaluated at
the same point must agree.  Derivatives are compared with central finite differences.  Run as a job by C01 and C02 (it is part
of their evidence: `traces_validated_against_impl`), and stand-alone with  ./vt selftest .
"""
from __future__ import annotations

import math
import random
from fractions import Fraction

import numpy as np

from . import core, diff, npx, harness
from .core import K, to_rat


def _rand_expr(rng, vars_sym, vars_val, depth):
    """returns (symbolic, exact Fraction) for +,-,*,/ trees"""
    if depth == 0 or rng.random() < 0.2:
        if rng.random() < 0.3:
            c = Fraction(rng.randint(-5, 5), rng.randint(1, 4))
            return K(c), c
        i = rng.randrange(len(vars_sym))
        return vars_sym[i], vars_val[i]
    a, av = _rand_expr(rng, vars_sym, vars_val, depth - 1)
    b, bv = _rand_expr(rng, vars_sym, vars_val, depth - 1)
    op = rng.choice("++-**/")
    if op == "+":
        return a + b, av + bv
    if op == "-":
        return a - b, av - bv
    if op == "*":
        return a * b, av * bv
    if bv == 0:
        return a + b, av + bv
    return a / b, av / bv


def run(n_cases=300, seed=0):
    rng = random.Random(seed)
    fails = []
    done = 0
    # 1. rational arithmetic + expansion, exact
    for case in range(n_cases):
        core.reset()
        nv = rng.randint(1, 4)
        vals = [Fraction(rng.randint(1, 9), rng.randint(1, 7)) * rng.choice([1, -1]) for _ in range(nv)]
        syms = [core.var(f"v{i}") for i in range(nv)]
        try:
            e, ev = _rand_expr(rng, syms, vals, rng.randint(2, 5))
        except ZeroDivisionError:
            continue
        if isinstance(e, (float, core.UndefinedValue)):
            continue
        env = {f"v{i}": vals[i] for i in range(nv)}
        try:
            got = _eval_exact(e, env)
            got2 = _eval_exact(core.expand(e), env)
        except ZeroDivisionError:
            continue
        done += 1
        if got != ev or got2 != ev:
            fails.append(("arith", case, str(ev), str(got), str(got2)))
    # 2. atoms: log / sqrt / exp identities evaluated numerically
    for case in range(n_cases // 3):
        core.reset()
        a, b = core.var("a", "+"), core.var("b", "+")
        av, bv = rng.uniform(0.2, 3), rng.uniform(0.2, 3)
        env = {"a": av, "b": bv}
        exprs = [(core.sym_log(a * b / 3) - core.sym_log(a) - core.sym_log(b), -math.log(3)),
                 (core.sym_sqrt(a * a * b / 4), av * math.sqrt(bv) / 2),
                 (core.sym_sqrt(a * b) * core.sym_sqrt(a / b), av),
                 (core.sym_exp(a - b) * core.sym_exp(b), math.exp(av - bv) * math.exp(bv)),
                 (core.sym_log(core.sym_exp(a + 2 * b)), av + 2 * bv),
                 (core.sym_sqrt((a - b) * (a - b)) if False else core.sym_abs(a - b) if False else core.sym_sqrt(a + b) ** 2, av + bv)]
        for j, (s, ref) in enumerate(exprs):
            done += 1
            v = core.eval_float(to_rat(s), env)
            if abs(v - ref) > 1e-9 * max(1.0, abs(ref)):
                fails.append(("atoms", case, j, ref, v))
    # 3. differentiation vs central differences
    for case in range(n_cases // 3):
        core.reset()
        x, y = core.var("x", "+"), core.var("y", "+")
        xv, yv = rng.uniform(0.3, 2), rng.uniform(0.3, 2)
        f = (x * x * y + core.sym_log(x * y) * y) / (x + y) + core.sym_sqrt(x + 2 * y) * core.sym_exp(x - y)
        d = diff.Differ(x.f[0][0]).drat(to_rat(f))
        h = 1e-6
        fp = core.eval_float(to_rat(f), {"x": xv + h, "y": yv})
        fm = core.eval_float(to_rat(f), {"x": xv - h, "y": yv})
        fd = (fp - fm) / (2 * h)
        dv = core.eval_float(d, {"x": xv, "y": yv})
        done += 1
        if abs(fd - dv) > 1e-5 * max(1.0, abs(fd)):
            fails.append(("diff", case, fd, dv))
    # 4. numpy proxy on object arrays vs float numpy
    for case in range(n_cases // 6):
        core.reset()
        A = rng_matrix(rng, 3, 2)
        S = np.empty(A.shape, dtype=object)
        env = {}
        for idx in np.ndindex(*A.shape):
            S[idx] = core.var(f"m_{idx[0]}_{idx[1]}")
            env[f"m_{idx[0]}_{idx[1]}"] = A[idx]
        checks = [(S.mean(0), A.mean(0)), (S.T @ S, A.T @ A), (npx.NPX.linalg.norm(S * S + 1, axis=1), np.linalg.norm(A * A + 1, axis=1)),
                  ((S / S.sum(1, keepdims=True)).sum(1), (A / A.sum(1, keepdims=True)).sum(1)), (np.cumsum(S, axis=0), np.cumsum(A, axis=0))]
        for j, (s, ref) in enumerate(checks):
            done += 1
            v = harness.eval_array(s, env)
            if not np.allclose(v, ref, rtol=1e-9, atol=1e-12):
                fails.append(("proxy", case, j))
    # 5. numpy's norm dispatch (vector / Frobenius / spectral) is reproduced or refused, never silently replaced
    A = rng_matrix(rng, 3, 2)
    S = npx.obj(A)
    for kw in [dict(), dict(ord=2, axis=1), dict(ord=2, axis=0, keepdims=True), dict(ord="fro"), dict(axis=(0, 1)), dict(ord="fro", axis=(0, 1))]:
        done += 1
        v = harness.eval_array(np.asarray(npx.NPX.linalg.norm(S, **kw), dtype=object), {})
        if not np.allclose(v, np.linalg.norm(A, **kw)):
            fails.append(("norm", str(kw)))
    done += 1
    v = harness.eval_array(np.asarray(npx.NPX.linalg.norm(S[:1], ord=2), dtype=object), {})     # 1 x m block: spectral == Frobenius
    if not np.allclose(v, np.linalg.norm(A[:1], ord=2)):
        fails.append(("norm", "1xm ord=2"))
    for bad, exc in [(dict(ord=2), NotImplementedError), (dict(ord=2, axis=(0, 1)), NotImplementedError)]:
        done += 1
        try:
            npx.NPX.linalg.norm(S, **bad)
            fails.append(("norm-accepted", str(bad)))
        except exc:
            pass
    return done, fails


def rng_matrix(rng, n, m):
    return np.array([[rng.uniform(0.2, 2.0) for _ in range(m)] for _ in range(n)])


def _eval_exact(r, env, memo=None):
    memo = {} if memo is None else memo
    v = Fraction(r.c)
    for fid, e in r.f:
        v *= _evalf_exact(fid, env, memo) ** e
    return v


def _evalf_exact(fid, env, memo):
    if fid in memo:
        return memo[fid]
    k = core.CTX.factors[fid]
    if k[0] == "v":
        v = Fraction(env[k[1]])
    elif k[0] == "p":
        v = Fraction(0)
        for m, c in core.CTX.fdata[fid].items():
            t = Fraction(c)
            for f, e in m:
                t *= _evalf_exact(f, env, memo) ** e
            v += t
    else:
        raise NotImplementedError(k[0])
    memo[fid] = v
    return v


def job(n_cases=300, seed=0):
    done, fails = run(n_cases, seed)
    res = {"paths": 0, "queries": 0, "obligations": [], "violations": [], "validated": done, "witnesses": 0,
           "samples": [{"engine_selftest_cases": done, "failures": [str(f)[:200] for f in fails[:5]]}]}
    res["obligations"].append({"name": f"engine self-test: {done} differential cases (normal form, expansion, atoms, differentiation, NumPy proxy)",
                               "verdict": "unsat" if not fails else "inconclusive", "how": "differential"})
    return res


if __name__ == "__main__":
    d, f = run()
    print(d, "cases;", len(f), "failures", f[:5])
