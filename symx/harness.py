"""symx.harness -- helpers shared by the per-property checks: symbolic inputs, obligations, definedness,
model -> concrete inputs, engine validation against the real implementation."""
from __future__ import annotations

import math
import random
import time
from fractions import Fraction

import numpy as np
import z3

from . import core, solve
from .core import CTX, Rat, K, to_rat


# ----------------------------------------------------------------------------------------------------------------------
# symbolic inputs


def simplex_matrix(n, Kc, eps, prefix="p", open_=True, closed=False):
    """n x K row-stochastic matrix: last column = 1 - sum of the others (the simplex is imposed by substitution).
    open_:  eps < p_ik < 1-eps assumed (clipping is the identity).  closed: 0 <= p_ik <= 1 only."""
    P = np.empty((n, Kc), dtype=object)
    base = []
    for i in range(n):
        row = [core.var(f"{prefix}_{i}_{k}", "+" if open_ else ("0+" if closed else None)) for k in range(Kc - 1)]
        last = K(1)
        for r in row:
            last = last - r
        for k in range(Kc - 1):
            P[i, k] = row[k]
        P[i, Kc - 1] = last
        base.append(row)
    e = to_rat(eps)
    hi = to_rat(1 - eps) if isinstance(eps, float) else 1 - e   # the code computes `1 - self.epsilon` in floats
    for i in range(n):
        for k in range(Kc):
            if open_:
                assume(P[i, k] > e)
                assume(P[i, k] < hi)
            elif closed:
                assume(P[i, k] >= 0)
                assume(P[i, k] <= 1)
    if open_:
        # syntactic positivity of the dependent column too (a polynomial factor): record it
        for i in range(n):
            mark_sign(P[i, Kc - 1], "+")
    return P, base


def free_matrix(n, m, prefix, sign=None):
    A = np.empty((n, m), dtype=object)
    for i in range(n):
        for j in range(m):
            A[i, j] = core.var(f"{prefix}_{i}_{j}", sign)
    return A


def symmetric_matrix(n, prefix="a", sign=None, zero_diag=False):
    A = np.empty((n, n), dtype=object)
    for i in range(n):
        for j in range(i, n):
            if zero_diag and i == j:
                A[i, j] = K(0)
            else:
                v = core.var(f"{prefix}_{i}_{j}", sign)
                A[i, j] = v
                A[j, i] = v
    return A


def assume(b):
    """add a hypothesis (bool / SymBool)."""
    if isinstance(b, core.SymBool):
        CTX.assumptions.append(b.t)
    elif b is True or b is np.True_:
        pass
    elif b is False or b is np.False_:
        CTX.assumptions.append(z3.BoolVal(False))
    else:
        raise TypeError(b)


def mark_sign(r, s):
    """record syntactic sign knowledge for a Rat that is c*factor (c>0) -- must be a consequence of assumptions!"""
    r = to_rat(r)
    if len(r.f) == 1 and r.f[0][1] == 1 and r.c > 0:
        fid = r.f[0][0]
        if CTX.sign[fid] is None:
            CTX.sign[fid] = s


# ----------------------------------------------------------------------------------------------------------------------
# obligations


def all_factors(rats):
    fs = set()
    for r in rats:
        fs.update(f for f, _ in r.f)
        for gid in r.g:
            fs.add(CTX.guard_tab[gid][1])
    return fs


def _context_formulas(pc, fids, level, exp_monotone=False, extra=()):
    fs = list(CTX.assumptions) + list(pc) + list(extra)
    # factors mentioned by assumptions/pc are z3 terms already; atoms among them need axioms too: collect all atoms
    # reachable from the goal factors plus every atom created so far that occurs in the path condition (cheap: all).
    all_atoms = set(fids)
    all_atoms.update(CTX.sqrt_atoms)
    all_atoms.update(CTX.exp_atoms)
    all_atoms.update(CTX.sgn_atoms)
    all_atoms.update(CTX.ite_atoms)
    fs += core.atom_axioms(all_atoms, level=level, exp_monotone=exp_monotone)
    fs += list(CTX.extra_axioms)
    return fs


def prove_zero(d, pc, timeout_s=20.0, name="", levels=(0, 1), assume_guards=True, extra=(), try_expand=True):
    """is d == 0 on every input satisfying assumptions+pc (+ the guards under which d is defined)?
    returns dict(verdict, model, info...)"""
    d = to_rat(d) if not isinstance(d, core.UndefinedValue) else d
    t0 = time.time()
    out = {"name": name, "verdict": None, "model": None, "how": None}
    if nonfinite(d):
        out.update(verdict="undefined", how=getattr(d, "why", repr(d)))
        return out
    if d.c == 0:
        out.update(verdict="unsat", how="normal-form", time_s=0.0, solver="symx-normal-form")
        return out
    guards = [g[3] for g in core.guard_terms(d.g)] if assume_guards else []
    goal = core.z3num(Rat(Fraction(1), d.f)) != 0
    last = None
    for level in levels:
        fs = _context_formulas(pc, all_factors([d]), level, extra=extra) + guards + [goal]
        v, model, info = solve.check(fs, timeout_s=timeout_s)
        last = (v, model, info)
        if v == "unsat":
            out.update(verdict="unsat", how=f"solver-level{level}", **info)
            return out
        if v == "unknown":
            break
    if try_expand:
        e = core.expand(d)
        if e.c == 0:
            out.update(verdict="unsat", how="normal-form-after-expansion", time_s=round(time.time() - t0, 3), solver="symx-normal-form")
            return out
        if e.key() != d.key():
            goal2 = core.z3num(Rat(Fraction(1), e.f)) != 0
            fs = _context_formulas(pc, all_factors([e]), 1, extra=extra) + guards + [goal2]
            v, model, info = solve.check(fs, timeout_s=timeout_s)
            if v == "unsat":
                out.update(verdict="unsat", how="solver-after-expansion", **info)
                return out
            if v == "sat":
                last = (v, model, info)
    v, model, info = last
    out.update(verdict=v, model=model, how="solver", **info)
    return out


def prove(boolterm, pc, timeout_s=20.0, name="", level=1, extra=(), exp_monotone=False, fids=()):
    """is the z3 Bool `boolterm` implied by assumptions + pc + atom axioms?"""
    out = {"name": name}
    if isinstance(boolterm, bool):
        out.update(verdict="unsat" if boolterm else "sat", how="syntactic", model=None)
        return out
    if isinstance(boolterm, core.SymBool):
        boolterm = boolterm.t
    fs = _context_formulas(pc, set(fids), level, exp_monotone=exp_monotone, extra=extra) + [z3.Not(boolterm)]
    v, model, info = solve.check(fs, timeout_s=timeout_s)
    out.update(verdict=v, model=model, how="solver", **info)
    return out


def reachable(pc, timeout_s=10.0, level=1, extra=()):
    """vacuity guard: assumptions + pc + axioms must be satisfiable."""
    fs = _context_formulas(pc, set(), level, extra=extra)
    v, model, info = solve.check(fs, timeout_s=timeout_s)
    return v, model


def nonfinite(x):
    """a value that is undefined / infinite on the whole path (IEEE x/0, 0/0, log 0 ...)"""
    if isinstance(x, core.UndefinedValue):
        return True
    if isinstance(x, float):
        return x != x or x in (float("inf"), float("-inf"))
    return False


def check_defined(rats, pc, timeout_s=10.0, name="defined"):
    """every guard of every output must be implied by assumptions + pc."""
    gs = set()
    for r in rats:
        if nonfinite(r):
            return {"name": name, "verdict": "sat", "how": "undefined-on-all-inputs", "model": None, "what": getattr(r, "why", repr(r))}
        gs |= to_rat(r).g
    res = {"name": name, "verdict": "unsat", "n_guards": len(gs), "how": "no-guards" if not gs else "solver", "model": None}
    for gid, kind, fid, term in core.guard_terms(gs):
        r = prove(term, pc, timeout_s=timeout_s, fids=[fid])
        if r["verdict"] != "unsat":
            res.update(verdict=r["verdict"], model=r.get("model"), what=f"{kind}({core.fname(fid)})", guard=str(term)[:200])
            return res
    return res


# ----------------------------------------------------------------------------------------------------------------------
# models -> concrete inputs; numeric evaluation


def model_env(model, default=0.5):
    env = {}
    for k in CTX.factors:
        if k[0] == "v":
            v = model.get(k[1]) if model else None
            env[k[1]] = float(v) if v is not None else default
    return env


def random_env(rng, lo=0.05, hi=0.95):
    env = {}
    for k in CTX.factors:
        if k[0] == "v":
            env[k[1]] = rng.uniform(lo, hi)
    return env


def eval_array(A, env):
    memo = {}
    A = np.asarray(A, dtype=object)
    out = np.empty(A.shape, dtype=float)
    of = out.reshape(-1)
    af = A.reshape(-1)
    for i in range(af.shape[0]):
        v = af[i]
        if isinstance(v, Rat):
            of[i] = core.eval_float(v, env, memo)
        elif isinstance(v, core.UndefinedValue):
            of[i] = float("nan")
        else:
            of[i] = float(v)
    return out


def pc_holds(pc, env_model):
    """evaluate the path condition under a full numeric model (dict name->Fraction/float) -- used when sampling
    validation points: only points on the path are comparable."""
    subs = []
    for name, v in env_model.items():
        subs.append((z3.Real(name), z3.RealVal(str(Fraction(v).limit_denominator(10 ** 12)))))
    for c in pc:
        r = z3.simplify(z3.substitute(c, *subs))
        if z3.is_false(r):
            return False
        if not z3.is_true(r):
            return None
    return True


def fmt_model(model, limit=40):
    if not model:
        return {}
    out = {}
    for k in sorted(model)[:limit]:
        v = model[k]
        out[k] = str(v) if isinstance(v, Fraction) and v.denominator < 10 ** 6 else float(v)
    return out
