"""symx.runner -- run the jobs of a check on all cores under hard limits, merge, write evidence, report."""
from __future__ import annotations

import hashlib
import importlib
import json
import multiprocessing as mp
import os
import random
import resource
import sys
import time
import traceback

VERIF = os.path.dirname(os.path.dirname(os.path.abspath(__file__)))
EVID = os.path.join(VERIF, "evidence")
REPLAYS = os.path.join(VERIF, "replays")
KNOWN = os.path.join(VERIF, "known_findings.json")


def _child(conn, target, kwargs, mem_gb, timeout=None):
    try:
        if timeout:
            # soft deadline: explorers stop opening new paths shortly before the hard kill, so a long job reports what it did
            os.environ["SYMX_DEADLINE"] = str(time.time() + 0.85 * timeout)
        try:
            resource.setrlimit(resource.RLIMIT_AS, (mem_gb << 30, mem_gb << 30))
        except Exception:
            pass
        modname, fn = target.split(":")
        mod = importlib.import_module(modname)
        t0 = time.time()
        res = getattr(mod, fn)(**kwargs)
        res.setdefault("wall_s", round(time.time() - t0, 2))
        from symx import solve, loader
        res.setdefault("solver_stats", solve.snapshot_stats())
        res.setdefault("functions", loader.source_info())
        conn.send(res)
    except BaseException as e:  # noqa
        conn.send({"crash": f"{type(e).__name__}: {e}", "traceback": traceback.format_exc()[-3000:]})
    finally:
        conn.close()


def run_jobs(jobs, nproc=None, seed=0, mem_gb=10):
    """jobs: list of dict(name, target='mod:fn', kwargs, timeout).  returns list of (job, result)."""
    nproc = nproc or min(16, os.cpu_count() or 4)
    ctx = mp.get_context("fork")
    order = list(range(len(jobs)))
    random.Random(seed).shuffle(order)
    # longest (by declared timeout) first helps the makespan; ties shuffled by seed
    order.sort(key=lambda i: -jobs[i].get("timeout", 60))
    pending = list(order)
    running = {}
    results = [None] * len(jobs)
    while pending or running:
        while pending and len(running) < nproc:
            i = pending.pop(0)
            pc, cc = ctx.Pipe(duplex=False)
            p = ctx.Process(target=_child, args=(cc, jobs[i]["target"], jobs[i].get("kwargs", {}), mem_gb, jobs[i].get("timeout", 60)))
            p.start()
            cc.close()
            running[i] = (p, pc, time.time())
        time.sleep(0.02)
        for i in list(running):
            p, pc, t0 = running[i]
            done = False
            if pc.poll():
                try:
                    results[i] = pc.recv()
                except EOFError:
                    results[i] = {"crash": "worker died (out of memory?)"}
                done = True
            elif not p.is_alive():
                results[i] = {"crash": f"worker exited with code {p.exitcode} (memory limit?)"}
                done = True
            elif time.time() - t0 > jobs[i].get("timeout", 60):
                p.kill()
                results[i] = {"timeout": jobs[i].get("timeout", 60)}
                done = True
            if done:
                p.join(timeout=5)
                if p.is_alive():
                    p.kill()
                pc.close()
                results[i].setdefault("wall_s", round(time.time() - t0, 2))
                del running[i]
    return list(zip(jobs, results))


def load_known():
    if not os.path.exists(KNOWN):
        return []
    with open(KNOWN) as fh:
        return json.load(fh).get("findings", [])


def finish(prop, tier, seed, pairs, t0, level="model_checking", assumptions=(), bounds=None, extra_cov=None, stubs=()):
    """merge job results, write evidence, print VIOLATION / KNOWN-FINDING lines, return the exit code."""
    EVID = os.environ.get("SYMX_EVIDENCE_DIR") or globals()["EVID"]
    os.makedirs(EVID, exist_ok=True)
    known = [k for k in load_known() if k.get("property") == prop and k.get("status", "open") == "open"]
    paths = queries = validated = witnesses = 0
    obligations = []
    violations = []
    crashes = []
    timeouts = []
    functions = {}
    samples = []
    job_walls = []
    from symx import solve
    sstats = {}
    for job, res in pairs:
        if res is None:
            crashes.append({"job": job["name"], "crash": "no result"})
            continue
        if "crash" in res:
            crashes.append({"job": job["name"], "crash": res["crash"], "traceback": res.get("traceback", "")})
            continue
        if "timeout" in res:
            timeouts.append({"job": job["name"], "timeout_s": res["timeout"]})
            continue
        paths += res.get("paths", 0)
        queries += res.get("queries", 0)
        validated += res.get("validated", 0)
        witnesses += res.get("witnesses", 0)
        for o in res.get("obligations", []):
            o = dict(o)
            o["job"] = job["name"]
            o.pop("model", None)
            obligations.append(o)
        for v in res.get("violations", []):
            v = dict(v)
            v["job"] = job["name"]
            violations.append(v)
        functions.update(res.get("functions", {}))
        job_walls.append((res.get("wall_s", 0), job["name"]))
        samples.extend(res.get("samples", [])[:2])
        sstats = solve.merge_stats(sstats, res.get("solver_stats", {})) if sstats else res.get("solver_stats", {})
    discharged = sum(1 for o in obligations if o.get("verdict") == "unsat")
    undis = [o for o in obligations if o.get("verdict") not in ("unsat",)]
    unknown = [o for o in undis if o.get("verdict") in ("unknown", "inconclusive")]
    # violations: dedupe by signature
    seen = {}
    for v in violations:
        seen.setdefault(v["signature"], v)
    new_v, known_v = [], []
    for sig, v in seen.items():
        k = next((k for k in known if k["signature"] == sig), None)
        (known_v if k else new_v).append((v, k))
    os.makedirs(REPLAYS, exist_ok=True)
    lines = []
    for v, k in known_v:
        lines.append(f"KNOWN-FINDING: property={prop} {k['what']}")
    for v, _ in new_v:
        h = hashlib.sha1(v["signature"].encode()).hexdigest()[:10]
        path = os.path.join(REPLAYS, f"{prop}-{h}.json")
        with open(path, "w") as fh:
            json.dump({"property": prop, "signature": v["signature"], "what": v.get("what"), "replay": v.get("replay")}, fh, indent=1, default=str)
        lines.append(f"VIOLATION property={prop} replay={path}")
    wall = round(time.time() - t0, 2)
    if not samples:
        samples = [{k: o.get(k) for k in ("job", "name", "verdict", "how", "solver", "time_s")} for o in obligations[:3]]
    cov = {
        "states": max(paths, 1),
        "transitions": max(queries, 1),
        "traces_validated_against_impl": validated,
        "samples": samples[:8],
        "explanation": "states = feasible symbolic paths explored through the real code; transitions = solver queries "
                       "posed (feasibility + property); traces_validated = concrete runs of the real implementation "
                       "compared with the symbolic terms at sampled points, plus replays",
        "obligations": len(obligations),
        "discharged": discharged,
        "not_discharged": [{k: o.get(k) for k in ("job", "name", "verdict", "how")} for o in undis][:60],
        "n_not_discharged": len(undis),
        "n_unknown": len(unknown),
        "reachability_witnesses": witnesses,
        "jobs": len(pairs),
        "slowest_jobs": [f"{n}: {w}s" for w, n in sorted(job_walls, reverse=True)[:6]],
        "jobs_timed_out": timeouts,
        "jobs_crashed": [{"job": c["job"], "crash": c["crash"]} for c in crashes],
        "bounds": bounds or {},
        "stubs": list(stubs),
        "functions_encoded": functions,
        "solver": sstats,
        "known_findings_reported": [k["what"] for _, k in known_v],
        "evaluations": max(len(obligations), 1),
        "distinct_nontrivial": max(len({(o.get("job"), o.get("name")) for o in obligations if o.get("how") not in ("syntactic",)}), 0),
        "rule": "one obligation per (harness, shape, feasible path, assertion); non-trivial = needed the solver or the normal form, distinct by (job, name)",
    }
    if extra_cov:
        cov.update(extra_cov)
    ev = {
        "property_id": prop,
        "tier": tier,
        "seed": int(seed),
        "level": level,
        "coverage": cov,
        "assumptions": list(assumptions),
        "wall_s": wall,
        "violations": len(new_v),
    }
    with open(os.path.join(EVID, f"{prop}.json"), "w") as fh:
        json.dump(ev, fh, indent=1, default=str)
    for ln in lines:
        print(ln)
    print(f"[{prop}] tier={tier} jobs={len(pairs)} paths={paths} queries={queries} obligations={len(obligations)} "
          f"discharged={discharged} not_discharged={len(undis)} (unknown={len(unknown)}) validated={validated} "
          f"witnesses={witnesses} timeouts={len(timeouts)} crashes={len(crashes)} new_violations={len(new_v)} "
          f"known={len(known_v)} wall={wall}s")
    for c in crashes[:5]:
        print(f"[{prop}] HARNESS-CRASH job={c['job']}: {c['crash']}\n{c.get('traceback', '')}", file=sys.stderr)
    if new_v:
        return 1
    if crashes:
        return 3
    return 0
