"""symx.cli -- ./vt check <ID> --tier quick|thorough ;  ./vt replay <path>"""
from __future__ import annotations

import argparse
import importlib
import json
import os
import shutil
import sys
import time
import warnings


def main(argv=None):
    warnings.simplefilter("ignore")
    ap = argparse.ArgumentParser()
    sub = ap.add_subparsers(dest="cmd", required=True)
    c = sub.add_parser("check")
    c.add_argument("prop")
    c.add_argument("--tier", default=os.environ.get("VERIF_TIER", "quick"), choices=["quick", "thorough"])
    c.add_argument("--jobs", default=None, help="only jobs whose name contains this substring")
    c.add_argument("--nproc", type=int, default=None)
    sub.add_parser("selftest")
    r = sub.add_parser("replay")
    r.add_argument("path")
    a = ap.parse_args(argv)
    if a.cmd == "check":
        seed = int(os.environ.get("VERIF_SEED", "0") or 0)
        if a.jobs is not None or os.environ.get("SYMX_REPO", "/repo") != "/repo":
            # a partial run, or a run against another tree (seed testing): its evidence does not describe the registered check on /repo
            os.environ["SYMX_EVIDENCE_DIR"] = os.path.join(os.path.dirname(os.path.dirname(os.path.abspath(__file__))), ".scratch-evidence")
        mod = importlib.import_module("checks." + a.prop.lower())
        t0 = time.time()
        code = mod.run(a.tier, seed, only=a.jobs, nproc=a.nproc)
        work = os.environ.get("SYMX_WORK", "/verif/.work")
        shutil.rmtree(work, ignore_errors=True)
        sys.exit(code)
    elif a.cmd == "selftest":
        from symx import selftest
        d, f = selftest.run(1500)
        print(d, "cases;", len(f), "failures", f[:5])
        sys.exit(1 if f else 0)
    else:
        with open(a.path) as fh:
            d = json.load(fh)
        mod = importlib.import_module("checks." + d["property"].lower())
        ok = mod.replay(d["replay"], verbose=True)
        print("reproduced" if ok else "NOT reproduced")
        sys.exit(1 if ok else 0)


if __name__ == "__main__":
    main()
