"""symx.solve -- property queries: always a FRESH solver (never push/pop), portfolio escalation, hard limits."""
from __future__ import annotations

import os
import resource
import shutil
import subprocess
import tempfile
import time
from fractions import Fraction

import z3

STATS = {"queries": 0, "unsat": 0, "sat": 0, "unknown": 0, "time_s": 0.0, "external": 0, "by_solver": {}}
WORK = os.environ.get("SYMX_WORK", "/verif/.work")


def _frac(v):
    if z3.is_rational_value(v):
        return Fraction(v.numerator_as_long(), v.denominator_as_long())
    if z3.is_algebraic_value(v):
        a = v.approx(30)
        return Fraction(a.numerator_as_long(), a.denominator_as_long())
    if z3.is_int_value(v):
        return Fraction(v.as_long())
    return None


def model_to_dict(m):
    out = {}
    for d in m.decls():
        if d.arity() == 0:
            v = m[d]
            f = _frac(v) if not z3.is_bool(v) else (1 if z3.is_true(v) else 0)
            if f is not None:
                out[d.name()] = f
    return out


def _bump(solver, res, dt):
    STATS["queries"] += 1
    STATS[res] = STATS.get(res, 0) + 1
    STATS["time_s"] += dt
    b = STATS["by_solver"].setdefault(solver, {"n": 0, "time_s": 0.0})
    b["n"] += 1
    b["time_s"] += dt


def check(formulas, timeout_s=20.0, logic="QF_NRA", external=True, ext_timeout_s=None, want_model=True):
    """decide satisfiability of the conjunction of `formulas`.
    returns (verdict, model_dict_or_None, info) with verdict in {'unsat','sat','unknown'}."""
    t0 = time.time()
    try:
        s = z3.SolverFor(logic)
    except z3.Z3Exception:
        s = z3.Solver()
    s.set("timeout", int(timeout_s * 1000))
    for f in formulas:
        s.add(f)
    r = s.check()
    dt = time.time() - t0
    info = {"solver": "z3-" + z3.get_version_string(), "time_s": round(dt, 3), "logic": logic}
    if r == z3.unsat:
        _bump(info["solver"], "unsat", dt)
        return "unsat", None, info
    if r == z3.sat:
        _bump(info["solver"], "sat", dt)
        return "sat", (model_to_dict(s.model()) if want_model else None), info
    # unknown: try again without the logic restriction (different tactic), then the external portfolio
    t1 = time.time()
    s2 = z3.Solver()
    s2.set("timeout", int(timeout_s * 1000))
    for f in formulas:
        s2.add(f)
    r2 = s2.check()
    dt2 = time.time() - t1
    if r2 == z3.unsat:
        _bump(info["solver"] + "-default", "unsat", dt + dt2)
        info.update(solver=info["solver"] + "-default", time_s=round(dt + dt2, 3))
        return "unsat", None, info
    if r2 == z3.sat:
        _bump(info["solver"] + "-default", "sat", dt + dt2)
        info.update(solver=info["solver"] + "-default", time_s=round(dt + dt2, 3))
        return "sat", (model_to_dict(s2.model()) if want_model else None), info
    if external:
        v, which, dte = external_portfolio(s, logic, ext_timeout_s or max(timeout_s, 10.0))
        if v in ("unsat", "sat"):
            _bump(which, v, dt + dt2 + dte)
            STATS["external"] += 1
            info.update(solver=which, time_s=round(dt + dt2 + dte, 3))
            return v, None, info
    _bump(info["solver"], "unknown", time.time() - t0)
    info["time_s"] = round(time.time() - t0, 3)
    return "unknown", None, info


def _limits():
    try:
        resource.setrlimit(resource.RLIMIT_AS, (8 << 30, 8 << 30))
    except Exception:
        pass


def external_portfolio(solver, logic, timeout_s):
    """dump to SMT-LIB2 and run the CLI solvers as separate processes under RLIMIT_AS and a wall-clock kill."""
    os.makedirs(WORK, exist_ok=True)
    body = solver.to_smt2()
    # z3's dump has no set-logic; add one for cvc5
    text = f"(set-logic {logic})\n" + "\n".join(l for l in body.splitlines() if not l.startswith("(set-info"))
    fd, path = tempfile.mkstemp(suffix=".smt2", dir=WORK)
    with os.fdopen(fd, "w") as fh:
        fh.write(text)
    cmds = []
    if shutil.which("z3"):
        cmds.append(("z3-cli-4.8.12", ["z3", "-smt2", f"-T:{int(timeout_s)}", path]))
    if shutil.which("cvc5"):
        cmds.append(("cvc5-cli", ["cvc5", "--lang=smt2", f"--tlimit={int(timeout_s * 1000)}", path]))
    procs = []
    t0 = time.time()
    for name, cmd in cmds:
        try:
            procs.append((name, subprocess.Popen(cmd, stdout=subprocess.PIPE, stderr=subprocess.STDOUT, text=True, preexec_fn=_limits)))
        except OSError:
            pass
    verdict, which = "unknown", None
    deadline = t0 + timeout_s + 5
    pending = list(procs)
    while pending and time.time() < deadline and verdict == "unknown":
        for name, p in list(pending):
            if p.poll() is not None:
                out = p.stdout.read()
                pending.remove((name, p))
                if "(error" in out:
                    continue
                first = out.strip().splitlines()[0].strip() if out.strip() else ""
                if first in ("sat", "unsat"):
                    verdict, which = first, name
                    break
        time.sleep(0.05)
    for _, p in procs:
        if p.poll() is None:
            p.kill()
    try:
        os.unlink(path)
    except OSError:
        pass
    return verdict, which, time.time() - t0


def snapshot_stats():
    return {k: (dict(v) if isinstance(v, dict) else v) for k, v in STATS.items()}


def merge_stats(a, b):
    out = dict(a)
    for k, v in b.items():
        if isinstance(v, dict):
            d = dict(out.get(k, {}))
            for kk, vv in v.items():
                cur = dict(d.get(kk, {"n": 0, "time_s": 0.0}))
                cur["n"] += vv["n"]
                cur["time_s"] += vv["time_s"]
                d[kk] = cur
            out[k] = d
        else:
            out[k] = out.get(k, 0) + v
    return out
