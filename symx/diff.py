"""symx.diff -- exact differentiation of Rat terms with respect to a base variable (or several, with a chain map).

d(c * prod f^e) = (c * prod f^e) * sum_i e_i * df_i / f_i      (done without dividing: product rule on factors)
d(poly)         = sum coeff * d(monomial)
d(log f)        = df / f ;  d(sqrt f) = df / (2 sqrt f) ;  d(exp t) = exp(t) * dt
d(sgn f)        = 0   (away from the switching surface)
d(uf)           = user supplied (``CTX.uf_grad[fid] -> {var fid: Rat}``) or 0
"""
from __future__ import annotations

from fractions import Fraction

from . import core
from .core import CTX, Rat, ZERO, K, add_many


class Differ:
    def __init__(self, wrt_fid, uf_grad=None, subst=None):
        """wrt_fid: factor id of the base variable.  subst: {fid: Rat} d(fid)/d(wrt) overrides (chain rule for
        dependent variables, e.g. the eliminated simplex coordinate)."""
        self.x = wrt_fid
        self.memo = {}
        self.uf_grad = uf_grad or {}
        self.subst = subst or {}

    def dfactor(self, fid):
        if fid in self.memo:
            return self.memo[fid]
        if fid in self.subst:
            r = self.subst[fid]
        else:
            k = CTX.factors[fid]
            if k[0] == "v":
                r = core.ONE if fid == self.x else ZERO
            elif k[0] == "p":
                terms = []
                for m, c in CTX.fdata[fid].items():
                    terms.append(self.drat(Rat(c, m)))
                r = add_many(terms)
            elif k[0] == "log":
                r = self.dfactor(k[1]) / Rat(Fraction(1), ((k[1], 1),))
            elif k[0] == "sqrt":
                r = self.dfactor(k[1]) / (2 * Rat(Fraction(1), ((fid, 1),)))
            elif k[0] == "exp":
                r = Rat(Fraction(1), ((fid, 1),)) * self.drat(CTX.fdata[fid])
            elif k[0] in ("logp", "sqrtp", "sgn"):
                r = ZERO
            elif k[0] == "uf":
                g = self.uf_grad.get(fid)
                r = g(self) if g is not None else ZERO
            elif k[0] == "ite":
                c, a, b = CTX.fdata[fid]
                r = core.sym_ite(core.SymBool(c), self.drat(a), self.drat(b))
            else:
                raise NotImplementedError(k[0])
        self.memo[fid] = r
        return r

    def drat(self, r):
        if not r.f:
            return ZERO
        terms = []
        for i, (fid, e) in enumerate(r.f):
            df = self.dfactor(fid)
            if df.c == 0:
                continue
            # c * e * f^(e-1) * df * prod_{j != i} f_j^e_j
            rest = r.f[:i] + (((fid, e - 1),) if e != 1 else ()) + r.f[i + 1:]
            terms.append(Rat(r.c * e, rest) * df)
        return add_many(terms) if terms else ZERO


def grad(r, wrt_rats, **kw):
    """list of d r / d v for each base-variable Rat v in wrt_rats."""
    out = []
    for v in wrt_rats:
        fid = v.f[0][0]
        out.append(Differ(fid, **kw).drat(r))
    return out
