"""symx.core -- symbolic reals in factored rational normal form, executed by the *real* GemClus code.

A symbolic real (``Rat``) is   coeff * prod_i  factor_i ** exp_i   with ``coeff`` an exact Fraction and
``exp_i`` non-zero integers (negative = denominator).  Factors are interned in a global table and are one of

  ('v', name)                 a base variable
  ('p', polykey)              a canonical polynomial (>=2 monomials) over other factors, positive exponents only
  ('log', fid) ('sqrt', fid)  transcendental atoms on a single factor
  ('logp', p)  ('sqrtp', p)   log / sqrt of a prime constant
  ('exp', ratkey)             exp of an arbitrary Rat
  ('sgn', fid)                sign atom (merge mode for np.sign / np.abs)
  ('ite', condkey, ratkey_a, ratkey_b)   merged conditional
  ('uf', name, args)          uninterpreted value (stubs); congruence by interning

No division ever reaches the solver: every query is posed on sign-equivalent polynomials.  Every Rat carries
``guards``: the set of side conditions (factor != 0, log argument > 0, sqrt argument >= 0) under which the value
is *defined*; they flow with the data, so a value that was divided by a possibly-zero quantity and then
overwritten (the ``x/0``-then-masked idiom of the code) leaves no trace.

Comparisons give ``SymBool``; ``bool(SymBool)`` is a *decision* taken by the active ``Explorer`` (re-execution DFS).
"""
from __future__ import annotations

import math
import numbers
from fractions import Fraction

import z3

# ----------------------------------------------------------------------------------------------------------------------
# global context


class Ctx:
    def __init__(self):
        self.reset()

    def reset(self):
        self.factors = []          # fid -> key tuple
        self.fdata = []            # fid -> payload (poly dict / Rat / None)
        self.intern = {}           # key -> fid
        self.sign = []             # fid -> '+', '-', '0+', 'nz', None   (syntactic knowledge)
        self.z3cache = {}          # fid -> z3 term
        self.guard_tab = []        # gid -> (kind, fid)
        self.guard_intern = {}
        self.explorer = None
        self.strict = False        # differentiability mode: decisions exclude ties
        self.eq_decisions = False  # with strict: `==` / `!=` are still real decisions (only ties of inequalities are excluded)
        self.merge_sign = False    # np.sign/np.abs produce sgn atoms instead of forking
        self.assumptions = []      # z3 Bool terms
        self.exp_atoms = []        # fids of exp atoms (for congruence / monotonicity axioms)
        self.sgn_atoms = []
        self.ite_atoms = []
        self.sqrt_atoms = []
        self.log_atoms = []
        self.uf_atoms = []
        self.extra_axioms = []     # z3 Bool terms (true facts about atoms), added to every property query
        self.expand_memo = {}
        self.stats = {"decisions": 0, "forced": 0, "feas_checks": 0, "feas_unknown": 0}
        self._keep = []            # keep z3 refs alive


CTX = Ctx()


def reset():
    CTX.reset()


# ----------------------------------------------------------------------------------------------------------------------
# factors


def _new_factor(key, data=None, sign=None):
    fid = CTX.intern.get(key)
    if fid is not None:
        return fid
    fid = len(CTX.factors)
    CTX.factors.append(key)
    CTX.fdata.append(data)
    CTX.sign.append(sign)
    CTX.intern[key] = fid
    return fid


def var(name, sign=None):
    """A fresh (or re-used, by name) base variable as a Rat.  sign in {None,'+','-','0+','nz'} is *syntactic*
    knowledge that is ALSO added as an assumption (so it is part of every query)."""
    key = ("v", name)
    known = key in CTX.intern
    fid = _new_factor(key, None, sign)
    if not known and sign is not None:
        t = z3f(fid)
        CTX.assumptions.append({"+": t > 0, "-": t < 0, "0+": t >= 0, "nz": t != 0}[sign])
    return Rat(Fraction(1), ((fid, 1),))


def _prime_factors(n, bound=2000):
    """trial division by primes up to `bound`; a remaining cofactor > 1 is kept whole (treated as one opaque
    'prime' -- sound for the uses here: log(ab)=log a+log b and sqrt extraction only need SOME factorisation)."""
    n = abs(int(n))
    out = {}
    p = 2
    while p * p <= n and p <= bound:
        while n % p == 0:
            out[p] = out.get(p, 0) + 1
            n //= p
        p += 1 if p == 2 else 2
    if n > 1:
        r = math.isqrt(n)
        if r * r == n:
            out[r] = out.get(r, 0) + 2
        else:
            out[n] = out.get(n, 0) + 1
    return out


def fsign(fid):
    return CTX.sign[fid]


def _mul_sign(a, b):
    if a is None or b is None:
        return None
    if a == "nz" or b == "nz":
        if a in ("+", "-", "nz") and b in ("+", "-", "nz"):
            return "nz"
        return None
    tab = {("+", "+"): "+", ("+", "-"): "-", ("-", "+"): "-", ("-", "-"): "+",
           ("+", "0+"): "0+", ("0+", "+"): "0+", ("0+", "0+"): "0+"}
    return tab.get((a, b))


def _pow_sign(s, e):
    if s is None:
        return "0+" if e % 2 == 0 and e > 0 else None
    if e % 2 == 0:
        return "+" if s in ("+", "-", "nz") else "0+"
    return s


def mono_sign(mono):
    s = "+"
    for fid, e in mono:
        s = _mul_sign(s, _pow_sign(CTX.sign[fid], e))
        if s is None:
            return None
    return s


def _poly_sign(poly):
    """poly: dict mono->coeff. '+' if every term is >= 0 and at least one > 0, etc."""
    pos = neg = True
    strict_pos = strict_neg = False
    for mono, c in poly.items():
        s = mono_sign(mono)
        if s is None or s == "nz":
            return None
        if c < 0:
            s = {"+": "-", "-": "+", "0+": "0-"}[s]
        if s == "+":
            neg = False
            strict_pos = True
        elif s == "0+":
            neg = False
        elif s == "-":
            pos = False
            strict_neg = True
        elif s == "0-":
            pos = False
    if pos and strict_pos:
        return "+"
    if pos:
        return "0+"
    if neg and strict_neg:
        return "-"
    return None


# ----------------------------------------------------------------------------------------------------------------------
# Rat


def _guard(kind, fid):
    k = (kind, fid)
    g = CTX.guard_intern.get(k)
    if g is None:
        g = len(CTX.guard_tab)
        CTX.guard_tab.append(k)
        CTX.guard_intern[k] = g
    return g


_EMPTY = frozenset()


class Rat:
    __slots__ = ("c", "f", "g")

    def __init__(self, c, f=(), g=_EMPTY):
        self.c = c
        self.f = f if c != 0 else ()
        self.g = g

    # -- helpers
    def key(self):
        return (self.c, self.f)

    def is_const(self):
        return not self.f

    def const(self):
        assert not self.f
        return self.c

    def __repr__(self):
        if not self.f:
            return f"Rat({self.c})"
        return "Rat(" + str(self.c) + "".join(f"*{fname(fid)}^{e}" if e != 1 else f"*{fname(fid)}" for fid, e in self.f) + ")"

    def __hash__(self):
        return hash((self.c, self.f))

    def __float__(self):
        if not self.f:
            return float(self.c)
        raise TypeError("symbolic value leaked into a float context: %r" % (self,))

    def __index__(self):
        if not self.f and self.c.denominator == 1:
            return int(self.c)
        raise TypeError("symbolic real used as an index")

    def __int__(self):
        return self.__index__()

    def item(self):
        return self

    def reshape(self, *shape):
        import numpy as _np
        a = _np.empty(1, dtype=object)
        a[0] = self
        return a.reshape(*shape)

    def __bool__(self):
        b = compare0(self, "!=")
        return bool(b)

    # -- arithmetic
    def __neg__(self):
        return Rat(-self.c, self.f, self.g)

    def __pos__(self):
        return self

    def __abs__(self):
        return sym_abs(self)

    def conjugate(self):
        return self

    def __mul__(self, o):
        o = to_rat(o)
        if o is NotImplemented:
            return NotImplemented
        if isinstance(o, float):  # inf/nan
            return _inf_mul(self, o)
        g = self.g | o.g if (self.g or o.g) else _EMPTY
        if self.c == 0 or o.c == 0:
            return Rat(Fraction(0), (), g)
        if not o.f:
            return Rat(self.c * o.c, self.f, g)
        if not self.f:
            return Rat(self.c * o.c, o.f, g)
        return Rat(self.c * o.c, _merge(self.f, o.f, 1), g)

    __rmul__ = __mul__

    def inv(self):
        if self.c == 0:
            raise ZeroDivisionError("symbolic division by exact zero")
        g = set(self.g)
        for fid, e in self.f:
            if e > 0 and CTX.sign[fid] not in ("+", "-", "nz"):
                g.add(_guard("nz", fid))
        return Rat(1 / self.c, tuple((fid, -e) for fid, e in self.f), frozenset(g) if g else _EMPTY)

    def __truediv__(self, o):
        o = to_rat(o)
        if o is NotImplemented:
            return NotImplemented
        if isinstance(o, float):
            if math.isinf(o):
                return Rat(Fraction(0), (), self.g)
            return o
        if o.c == 0:
            return _div_by_zero(self)
        return self * o.inv()

    def __rtruediv__(self, o):
        o = to_rat(o)
        if o is NotImplemented:
            return NotImplemented
        if isinstance(o, float):
            return _inf_mul(self.inv(), o)
        if self.c == 0:
            return _div_by_zero(o)
        return o * self.inv()

    def __pow__(self, n):
        if isinstance(n, Rat) and n.is_const():
            n = n.c
        if isinstance(n, float) and n == int(n):
            n = int(n)
        if isinstance(n, Fraction) and n.denominator == 1:
            n = int(n)
        if isinstance(n, (int,)) or (isinstance(n, numbers.Integral)):
            n = int(n)
            if n == 0:
                return Rat(Fraction(1))
            if n < 0:
                return self.inv() ** (-n)
            return Rat(self.c ** n, tuple((fid, e * n) for fid, e in self.f), self.g)
        if isinstance(n, Fraction) and n == Fraction(1, 2) or (isinstance(n, float) and n == 0.5):
            return sym_sqrt(self)
        raise TypeError("unsupported symbolic power %r" % (n,))

    def __add__(self, o):
        o = to_rat(o)
        if o is NotImplemented:
            return NotImplemented
        if isinstance(o, float):
            return o
        return _add(self, o)

    __radd__ = __add__

    def __sub__(self, o):
        o = to_rat(o)
        if o is NotImplemented:
            return NotImplemented
        if isinstance(o, float):
            return -o
        return _add(self, -o)

    def __rsub__(self, o):
        o = to_rat(o)
        if o is NotImplemented:
            return NotImplemented
        if isinstance(o, float):
            return o
        return _add(o, -self)

    # -- numpy object-loop hooks
    def sqrt(self):
        return sym_sqrt(self)

    def log(self):
        return sym_log(self)

    def exp(self):
        return sym_exp(self)

    def square(self):
        return self * self

    # -- comparisons
    def _cmp(self, o, op):
        o = to_rat(o)
        if o is NotImplemented:
            return NotImplemented
        if isinstance(o, float):
            if math.isnan(o):
                return op == "!="
            big = o > 0
            return {"<": big, "<=": big, ">": not big, ">=": not big, "==": False, "!=": True}[op]
        d = _add(self, -o)
        return compare0(d, op)

    def __lt__(self, o):
        return self._cmp(o, "<")

    def __le__(self, o):
        return self._cmp(o, "<=")

    def __gt__(self, o):
        return self._cmp(o, ">")

    def __ge__(self, o):
        return self._cmp(o, ">=")

    def __eq__(self, o):
        if o is None:
            return False
        return self._cmp(o, "==")

    def __ne__(self, o):
        if o is None:
            return True
        return self._cmp(o, "!=")


class UndefinedValue:
    """Poison: the result of an operation that is undefined for *every* input on this path."""
    __array_priority__ = 2000

    def __init__(self, why):
        self.why = why

    def __repr__(self):
        return f"Undefined({self.why})"

    def _p(self, *a):
        return self

    __add__ = __radd__ = __sub__ = __rsub__ = __mul__ = __rmul__ = __truediv__ = __rtruediv__ = __neg__ = __pow__ = _p
    sqrt = log = exp = __abs__ = _p

    def _c(self, o):
        return False

    __lt__ = __le__ = __gt__ = __ge__ = __eq__ = _c

    def __ne__(self, o):
        return True

    __hash__ = object.__hash__


def _div_by_zero(num):
    """IEEE semantics of x / 0: +-inf for x != 0 (what NumPy computes, with a warning), NaN (undefined) for 0 / 0"""
    if isinstance(num, float):
        return num / 1.0 if math.isnan(num) else (float("inf") if num > 0 else float("-inf") if num < 0 else UndefinedValue("0/0"))
    if not num.f:
        if num.c == 0:
            return UndefinedValue("0/0")
        return float("inf") if num.c > 0 else float("-inf")
    if bool(compare0(num, ">")):
        return float("inf")
    if bool(compare0(num, "<")):
        return float("-inf")
    return UndefinedValue("0/0")


def _inf_mul(r, o):
    # o is +-inf or nan
    if math.isnan(o):
        return o
    if r.is_const():
        if r.c == 0:
            return float("nan")
        return o if r.c > 0 else -o
    s = "+"
    for fid, e in r.f:
        s = _mul_sign(s, _pow_sign(CTX.sign[fid], e))
    if s == "+":
        return o if r.c > 0 else -o
    if s == "-":
        return -o if r.c > 0 else o
    b = compare0(r, ">")
    return o if bool(b) else -o


def _merge(fa, fb, sb):
    """merge two sorted factor tuples, adding sb * exponents of fb."""
    out = []
    i = j = 0
    na, nb = len(fa), len(fb)
    while i < na and j < nb:
        a, b = fa[i], fb[j]
        if a[0] == b[0]:
            e = a[1] + sb * b[1]
            if e:
                out.append((a[0], e))
            i += 1
            j += 1
        elif a[0] < b[0]:
            out.append(a)
            i += 1
        else:
            out.append((b[0], sb * b[1]))
            j += 1
    out.extend(fa[i:])
    if sb == 1:
        out.extend(fb[j:])
    else:
        out.extend((fid, sb * e) for fid, e in fb[j:])
    return tuple(out)


ZERO = Rat(Fraction(0))
ONE = Rat(Fraction(1))


def K(x):
    return Rat(Fraction(x))


def to_rat(x):
    if isinstance(x, Rat):
        return x
    if isinstance(x, UndefinedValue):
        return NotImplemented
    if isinstance(x, bool):
        return Rat(Fraction(int(x)))
    if isinstance(x, (int, Fraction)):
        return Rat(Fraction(x))
    if isinstance(x, float):
        if math.isinf(x) or math.isnan(x):
            return x
        return Rat(Fraction(x))
    if isinstance(x, SymBool):
        return Rat(Fraction(1)) if bool(x) else Rat(Fraction(0))
    if isinstance(x, SymInt):
        return x.as_rat()
    try:
        import numpy as np
        if isinstance(x, np.bool_):
            return Rat(Fraction(int(x)))
        if isinstance(x, np.integer):
            return Rat(Fraction(int(x)))
        if isinstance(x, np.floating):
            x = float(x)
            if math.isinf(x) or math.isnan(x):
                return x
            return Rat(Fraction(x))
    except ImportError:  # pragma: no cover
        pass
    return NotImplemented


# ----------------------------------------------------------------------------------------------------------------------
# addition: common-factor extraction + canonical polynomial


def _terms_of(c, f):
    """residual c*prod f (all exps >=0) as list of (mono, coeff); a lone polynomial factor^1 is flattened."""
    if len(f) == 1 and f[0][1] == 1 and CTX.factors[f[0][0]][0] == "p":
        return [(m, c * k) for m, k in CTX.fdata[f[0][0]].items()]
    return [(f, c)]


def _add(a, b):
    g = a.g | b.g if (a.g or b.g) else _EMPTY
    if a.c == 0:
        return Rat(b.c, b.f, g)
    if b.c == 0:
        return Rat(a.c, a.f, g)
    if a.f == b.f:
        return Rat(a.c + b.c, a.f, g)
    return add_many([a, b], g)


def add_many(rats, g=None):
    """sum of Rats in canonical form."""
    if g is None:
        g = _EMPTY
        for r in rats:
            if r.g:
                g = g | r.g
    rats = [r for r in rats if r.c != 0]
    if not rats:
        return Rat(Fraction(0), (), g)
    if len(rats) == 1:
        return Rat(rats[0].c, rats[0].f, g)
    # common factor: min exponent over all terms (missing = 0)
    common = None
    for r in rats:
        d = dict(r.f)
        if common is None:
            common = d
        else:
            for fid in list(common):
                common[fid] = min(common[fid], d.get(fid, 0))
            for fid, e in d.items():
                if fid not in common:
                    common[fid] = min(e, 0)
    common_t = tuple(sorted((fid, e) for fid, e in common.items() if e))
    poly = {}
    for r in rats:
        res = _merge(r.f, common_t, -1)
        for m, k in _terms_of(r.c, res):
            v = poly.get(m, 0) + k
            if v:
                poly[m] = v
            else:
                poly.pop(m, None)
    return _rat_from_poly(poly, common_t, g)


def _rat_from_poly(poly, common_t, g):
    if not poly:
        return Rat(Fraction(0), (), g)
    if len(poly) == 1:
        (m, k), = poly.items()
        return Rat(k, _merge(m, common_t, 1), g)
    # pull out the monomial gcd
    it = iter(poly)
    gm = dict(next(it))
    for m in it:
        d = dict(m)
        for fid in list(gm):
            e = min(gm[fid], d.get(fid, 0))
            if e:
                gm[fid] = e
            else:
                del gm[fid]
        if not gm:
            break
    if gm:
        gmt = tuple(sorted(gm.items()))
        poly = {_merge(m, gmt, -1): k for m, k in poly.items()}
        common_t = _merge(common_t, gmt, 1)
    # normalise the content: leading coefficient (smallest monomial) = 1
    lead = min(poly)
    lc = poly[lead]
    if lc != 1:
        poly = {m: k / lc for m, k in poly.items()}
    key = ("p", tuple(sorted(poly.items())))
    fid = CTX.intern.get(key)
    if fid is None:
        fid = _new_factor(key, poly, _poly_sign(poly))
    return Rat(lc, _merge(((fid, 1),), common_t, 1), g)


# ----------------------------------------------------------------------------------------------------------------------
# full expansion to base factors (variables and atoms): a canonical form used where *identity* of a term matters
# (radicands, decision conditions), so that two derivations of the same polynomial meet in one factor.

EXPAND_CAP = 60000


class ExpandOverflow(Exception):
    pass


def _pmul(a, b):
    out = {}
    if len(a) * len(b) > EXPAND_CAP:
        raise ExpandOverflow()
    for m1, c1 in a.items():
        for m2, c2 in b.items():
            m = _merge(m1, m2, 1)
            v = out.get(m, 0) + c1 * c2
            if v:
                out[m] = v
            else:
                out.pop(m, None)
    return out


_EXP_MEMO = {}


def _expand_factor(fid):
    """fully expanded polynomial (dict mono->coeff over non-'p' factors) of a factor."""
    k = CTX.factors[fid]
    if k[0] != "p" or fid in CTX.z3cache and not isinstance(CTX.fdata[fid], dict):
        return {((fid, 1),): Fraction(1)}
    key = (id(CTX.factors), fid)
    r = CTX.expand_memo.get(fid)
    if r is not None:
        return r
    poly = CTX.fdata[fid]
    if any(e < 0 for m in poly for _, e in m):
        r = {((fid, 1),): Fraction(1)}   # degenerate quotient factor: opaque
        CTX.expand_memo[fid] = r
        return r
    out = {}
    for m, c in poly.items():
        t = _expand_mono(m, c)
        for mm, cc in t.items():
            v = out.get(mm, 0) + cc
            if v:
                out[mm] = v
            else:
                out.pop(mm, None)
    CTX.expand_memo[fid] = out
    return out


def _expand_mono(mono, c):
    t = {(): Fraction(c)}
    for fid, e in mono:
        base = _expand_factor(fid)
        for _ in range(e):
            t = _pmul(t, base)
    return t


def expand(r):
    """Rat equal to r whose numerator part is one fully expanded canonical polynomial factor."""
    pos = tuple((fid, e) for fid, e in r.f if e > 0)
    neg = tuple((fid, e) for fid, e in r.f if e < 0)
    if not pos:
        return r
    try:
        poly = _expand_mono(pos, r.c)
    except ExpandOverflow:
        return r
    return _rat_from_poly(dict(poly), neg, r.g)


def fname(fid):
    k = CTX.factors[fid]
    if k[0] == "v":
        return k[1]
    return f"{k[0]}#{fid}"


# ----------------------------------------------------------------------------------------------------------------------
# z3 terms


def z3f(fid):
    t = CTX.z3cache.get(fid)
    if t is not None:
        return t
    k = CTX.factors[fid]
    if k[0] == "v":
        t = z3.Real(k[1])
    elif k[0] == "p":
        terms = []
        for m, c in CTX.fdata[fid].items():
            terms.append(_z3mono(c, m))
        t = terms[0]
        for u in terms[1:]:
            t = t + u
    else:
        t = z3.Real(f"{k[0]}!{fid}")
    CTX.z3cache[fid] = t
    return t


def _z3c(c):
    c = Fraction(c)
    return z3.RealVal(str(c.numerator) + "/" + str(c.denominator)) if c.denominator != 1 else z3.RealVal(c.numerator)


def _z3mono(c, mono):
    t = None
    for fid, e in mono:
        b = z3f(fid)
        for _ in range(e):
            t = b if t is None else t * b
    if t is None:
        return _z3c(c)
    if c == 1:
        return t
    return _z3c(c) * t


def z3num(r):
    """z3 term of the numerator part (positive exponents) of a Rat, including the coefficient."""
    return _z3mono(r.c, tuple((fid, e) for fid, e in r.f if e > 0))


def z3signpoly(r):
    """a polynomial z3 term with the same sign as r wherever r is defined."""
    mono = []
    for fid, e in r.f:
        if e > 0:
            mono.append((fid, e))
        elif (-e) % 2 == 1:
            s = CTX.sign[fid]
            if s == "+":
                continue
            mono.append((fid, 1))
    return _z3mono(r.c, tuple(mono))


def z3rat(r):
    """z3 term with real division (only for model evaluation / display, never for queries)."""
    t = _z3mono(r.c, tuple((fid, e) for fid, e in r.f if e > 0))
    den = tuple((fid, -e) for fid, e in r.f if e < 0)
    if den:
        t = t / _z3mono(1, den)
    return t


# ----------------------------------------------------------------------------------------------------------------------
# booleans and decisions


class SymBool:
    __slots__ = ("t",)

    def __init__(self, t):
        self.t = t

    def __bool__(self):
        ex = CTX.explorer
        if ex is None:
            raise RuntimeError("symbolic decision outside an exploration: %s" % (self.t,))
        return ex.decide(self.t)

    def __and__(self, o):
        if isinstance(o, SymBool):
            return SymBool(z3.And(self.t, o.t))
        return self if o else False

    __rand__ = __and__

    def __or__(self, o):
        if isinstance(o, SymBool):
            return SymBool(z3.Or(self.t, o.t))
        return True if o else self

    __ror__ = __or__

    def __invert__(self):
        return SymBool(z3.Not(self.t))

    def __repr__(self):
        return f"SymBool({self.t})"

    def __mul__(self, o):
        return to_rat(self) * o

    __rmul__ = __mul__

    def __hash__(self):
        return hash(self.t)


def compare0(d, op, _canon=True):
    """d <op> 0 as a Python bool when syntactically decidable, else SymBool."""
    if isinstance(d, UndefinedValue):
        return op == "!="
    if not d.f:
        c = d.c
        return {"<": c < 0, "<=": c <= 0, ">": c > 0, ">=": c >= 0, "==": c == 0, "!=": c != 0}[op]
    s = "+" if d.c > 0 else "-"
    for fid, e in d.f:
        s = _mul_sign(s, _pow_sign(CTX.sign[fid], e))
        if s is None:
            break
    if s == "+":
        return op in (">", ">=", "!=")
    if s == "-":
        return op in ("<", "<=", "!=")
    if s == "nz" and op in ("==", "!="):
        return op == "!="
    if s == "0+" and op in ("<", ">="):
        return op == ">="
    if d.c < 0:
        op = {"<": ">", "<=": ">=", ">": "<", ">=": "<=", "==": "==", "!=": "!="}[op]
    if _canon:
        # canonical form of the sign-relevant part, so that two derivations of one condition are ONE decision
        mono = []
        for fid, e in d.f:
            sg = CTX.sign[fid]
            if sg == "+":
                continue
            if e % 2:
                mono.append((fid, 1))
            elif e > 0 and sg not in ("-", "nz"):
                mono.append((fid, 2))
        if any(CTX.factors[fid][0] == "p" for fid, _ in mono):
            ex = expand(Rat(Fraction(1), tuple(mono)))
            return compare0(ex, op, _canon=False)
    t = z3signpoly(Rat(Fraction(1), d.f))
    if CTX.strict:
        # differentiability mode: ties are outside the region looked at
        if op in ("==", "!=") and not CTX.eq_decisions:
            return op == "!="
        z = {"<": t < 0, "<=": t < 0, ">": t > 0, ">=": t > 0, "==": t == 0, "!=": t != 0}[op]
    else:
        z = {"<": t < 0, "<=": t <= 0, ">": t > 0, ">=": t >= 0, "==": t == 0, "!=": t != 0}[op]
    return SymBool(z)


# ----------------------------------------------------------------------------------------------------------------------
# symbolic integers (small ranges, forked to concrete values on use)


class SymInt:
    """A symbolic integer with an explicit finite candidate set; comparisons are decisions, __index__ forks."""
    __slots__ = ("t", "lo", "hi", "name")
    __array_priority__ = 1000

    def __init__(self, name, lo, hi):
        self.name = name
        self.t = z3.Int(name)
        self.lo, self.hi = lo, hi
        CTX.assumptions.append(z3.And(self.t >= lo, self.t <= hi))

    def concretise(self):
        for v in range(self.lo, self.hi + 1):
            if bool(SymBool(self.t == v)):
                return v
        raise RuntimeError("no feasible value for %s" % self.name)

    def __bool__(self):
        return self.concretise() != 0

    def __index__(self):
        return self.concretise()

    __int__ = __index__

    def as_rat(self):
        return Rat(Fraction(self.concretise()))

    def _z(self, o):
        if isinstance(o, SymInt):
            return o.t
        if isinstance(o, (int,)) or isinstance(o, numbers.Integral):
            return int(o)
        return None

    def _cmp(self, o, f):
        z = self._z(o)
        if z is None:
            if isinstance(o, float):
                if math.isnan(o):
                    return f(0.0, o)
                if math.isinf(o):
                    return f(0.0, o)        # any finite integer compares with +-inf like 0 does
                return SymBool(f(z3.ToReal(self.t), _z3c(Fraction(o))))
            if isinstance(o, Fraction):
                return SymBool(f(z3.ToReal(self.t), _z3c(o)))
            return NotImplemented
        return SymBool(f(self.t, z))

    def __eq__(self, o):
        return self._cmp(o, lambda a, b: a == b)

    def __ne__(self, o):
        return self._cmp(o, lambda a, b: a != b)

    def __lt__(self, o):
        return self._cmp(o, lambda a, b: a < b)

    def __le__(self, o):
        return self._cmp(o, lambda a, b: a <= b)

    def __gt__(self, o):
        return self._cmp(o, lambda a, b: a > b)

    def __ge__(self, o):
        return self._cmp(o, lambda a, b: a >= b)

    def __hash__(self):
        # hashing forces the value (a fork over the feasible ones): sets / dicts then behave exactly as with ints
        return hash(self.concretise())

    def __add__(self, o):
        return self.concretise() + o

    __radd__ = __add__

    def __sub__(self, o):
        return self.concretise() - o

    def __rsub__(self, o):
        return o - self.concretise()

    def __mul__(self, o):
        return self.concretise() * o

    __rmul__ = __mul__

    def __repr__(self):
        return f"SymInt({self.name})"


numbers.Integral.register(SymInt)
numbers.Real.register(Rat)


# ----------------------------------------------------------------------------------------------------------------------
# atoms


def _single_factor(r):
    """return fid of a factor equal to r/r.c if r is coeff*factor^1, else None"""
    if len(r.f) == 1 and r.f[0][1] == 1:
        return r.f[0][0]
    return None


def prove_sign(fid, want):
    """syntactic knowledge first, then the explorer's solver under the current path condition."""
    s = CTX.sign[fid]
    if want == "+" and s == "+":
        return True
    if want == "0+" and s in ("+", "0+"):
        return True
    if want == "nz" and s in ("+", "-", "nz"):
        return True
    ex = CTX.explorer
    if ex is None:
        return False
    t = z3f(fid)
    goal = {"+": t > 0, "0+": t >= 0, "nz": t != 0}[want]
    # a decision already taken on exactly this condition?
    hit = ex.decided.get(goal.get_id())
    if hit is True:
        return True
    if want == "0+":
        if ex.decided.get((t > 0).get_id()) is True:
            return True
    if want == "nz":
        if ex.decided.get((t > 0).get_id()) is True or ex.decided.get((t < 0).get_id()) is True:
            return True
    if not _is_linear(fid):
        return False   # non-linear side conditions are not chased with the (incremental) feasibility solver
    return ex.implied(goal)


def _is_linear(fid):
    k = CTX.factors[fid]
    if k[0] == "v":
        return True
    if k[0] != "p":
        return False
    for m in CTX.fdata[fid]:
        if len(m) > 1 or (len(m) == 1 and (m[0][1] != 1 or CTX.factors[m[0][0]][0] != "v")):
            return False
    return True


def sym_log(x):
    x = to_rat(x)
    if isinstance(x, float):
        return math.log(x) if x > 0 else float("nan")
    if x.c == 0:
        return UndefinedValue("log(0)")
    g = set(x.g)
    terms = []
    c = x.c
    neg_coeff = c < 0
    # the coefficient: sum of logs of primes
    for p, e in _prime_factors(abs(c).numerator).items():
        terms.append(_atom(("logp", p), sign="+") * e)
    for p, e in _prime_factors(abs(c).denominator).items():
        terms.append(_atom(("logp", p), sign="+") * (-e))
    # the factors: expand log(prod f^e) = sum e log f  when every f is provably > 0; else one opaque atom
    ok = not neg_coeff and all(prove_sign(fid, "+") for fid, e in x.f)
    if ok:
        for fid, e in x.f:
            terms.append(_log_factor(fid) * e)
        return add_many(terms, frozenset(g))
    # not expandable: make the argument a single factor
    arg = x if not neg_coeff else x
    fid = _as_factor(Rat(arg.c, arg.f))
    g.add(_guard("pos", fid))
    a = _log_factor(fid)
    return Rat(a.c, a.f, frozenset(g))


def _log_factor(fid):
    k = CTX.factors[fid]
    if k[0] == "exp":
        return CTX.fdata[fid]  # log(exp(t)) = t
    a = _atom(("log", fid))
    afid = a.f[0][0]
    if afid not in CTX.log_atoms:
        CTX.log_atoms.append(afid)
    return a


def _as_factor(r):
    """a factor id whose value equals the Rat r (coefficient included)."""
    if r.c == 1:
        fid = _single_factor(r)
        if fid is not None:
            return fid
    key = ("p", ((r.f, r.c),))
    fid = CTX.intern.get(key)
    if fid is None:
        fid = _new_factor(key, {r.f: r.c}, None)
        # degenerate one-monomial polynomial (possibly with negative exponents): z3 term via signpoly is wrong,
        # so give it an explicit z3 definition through a fresh variable and a polynomial axiom
        v = z3.Real(f"q!{fid}")
        CTX.z3cache[fid] = v
        num = _z3mono(r.c, tuple((f, e) for f, e in r.f if e > 0))
        den = _z3mono(1, tuple((f, -e) for f, e in r.f if e < 0))
        CTX.extra_axioms.append(v * den == num)
    return fid


def _atom(key, data=None, sign=None):
    fid = _new_factor(key, data, sign)
    return Rat(Fraction(1), ((fid, 1),))


def sym_exp(x):
    x = to_rat(x)
    if isinstance(x, float):
        return math.exp(x)
    if x.c == 0:
        return Rat(Fraction(1), (), x.g)
    key = ("exp", x.key())
    known = key in CTX.intern
    a = _atom(key, Rat(x.c, x.f), "+")
    if not known:
        CTX.exp_atoms.append(a.f[0][0])
        CTX.assumptions.append(z3f(a.f[0][0]) > 0)
    return Rat(a.c, a.f, x.g)


def _split_square(n):
    """n = s*s*m with m square-free (n positive int)."""
    s, m = 1, 1
    for p, e in _prime_factors(n).items():
        s *= p ** (e // 2)
        if e % 2:
            m *= p
    return s, m


def sym_sqrt(x, _expanded=False):
    x = to_rat(x)
    if isinstance(x, float):
        return math.sqrt(x) if x >= 0 else float("nan")
    if x.c == 0:
        return Rat(Fraction(0), (), x.g)
    if x.c < 0 and not x.f:
        return UndefinedValue("sqrt of a negative constant")
    g = set(x.g)
    sgn = 1 if x.c > 0 else -1
    # constant part: sqrt(p/q) = sqrt(p*q)/q
    c = abs(x.c)
    s, m = _split_square(c.numerator * c.denominator)
    out = Rat(Fraction(s, c.denominator))
    for p in _prime_factors(m):
        a = _atom(("sqrtp", p), sign="+")
        fid = a.f[0][0]
        if fid not in CTX.sqrt_atoms:
            CTX.sqrt_atoms.append(fid)
        out = out * a
    # factors: f^e = f^(2q) f^r ; f^(2q) leaves the root as |f|^q, the radicand keeps f^r
    rad_pos, rad_unk = [], []
    for fid, e in x.f:
        q, r = divmod(e, 2)
        if q:
            if prove_sign(fid, "+"):
                out = out * Rat(Fraction(1), ((fid, q),))
            else:
                if q < 0 and not prove_sign(fid, "nz"):
                    g.add(_guard("nz", fid))
                f1 = Rat(Fraction(1), ((fid, 1),))
                if q % 2 == 0:
                    out = out * Rat(Fraction(1), ((fid, q),))
                else:
                    out = out * Rat(Fraction(1), ((fid, q - 1),)) * sym_abs(f1) if q != 1 else out * sym_abs(f1)
        if r:
            (rad_pos if prove_sign(fid, "+") else rad_unk).append(fid)
    for fid in rad_pos:
        out = out * _sqrt_factor(fid, "+")     # sqrt(x*y) = sqrt(x)*sqrt(y) for x, y > 0
    if sgn < 0 and not rad_unk:
        return UndefinedValue("sqrt of a negative quantity")
    if rad_unk or sgn < 0:
        unk = Rat(Fraction(sgn), tuple((fid, 1) for fid in rad_unk))
        if not _expanded and any(CTX.factors[fid][0] == "p" for fid in rad_unk):
            ex = expand(unk)
            if ex.key() != unk.key():
                res = out * sym_sqrt(ex, _expanded=True)
                if isinstance(res, UndefinedValue):
                    return res
                return Rat(res.c, res.f, res.g | frozenset(g))
        fid = _as_factor_poly(unk)
        g.add(_guard("nonneg", fid))
        out = out * _sqrt_factor(fid, "0+")
    return Rat(out.c, out.f, out.g | frozenset(g))


def _as_factor_poly(r):
    fid = _single_factor(r) if r.c == 1 else None
    if fid is not None:
        return fid
    return _as_factor(r)


def _sqrt_factor(fid, sign):
    k = CTX.factors[fid]
    key = ("sqrt", fid)
    known = key in CTX.intern
    a = _atom(key, None, sign)
    afid = a.f[0][0]
    if not known:
        CTX.sqrt_atoms.append(afid)
        # sign facts go to the assumptions too, so that the explorer's feasibility solver does not chase paths on which a
        # square root is negative
        CTX.assumptions.append(z3f(afid) >= 0 if sign != "+" else z3f(afid) > 0)
    elif sign == "+" and CTX.sign[afid] != "+":
        CTX.sign[afid] = "+"
    return a


def sym_sgn(x):
    """sign of x as a term (merge mode)."""
    x = to_rat(x)
    if not x.f:
        return Rat(Fraction((x.c > 0) - (x.c < 0)), (), x.g)
    out = Rat(Fraction(1 if x.c > 0 else -1), (), x.g)
    for fid, e in x.f:
        s = CTX.sign[fid]
        if s == "+" or (e % 2 == 0 and s in ("-", "nz")):
            continue
        if s == "-":
            out = -out
            continue
        if e % 2 == 0:
            # sgn(f)^2 : 1 unless f == 0
            a = _sgn_atom(fid)
            out = out * a * a
        else:
            out = out * _sgn_atom(fid)
    return out


def _sgn_atom(fid):
    key = ("sgn", fid)
    known = key in CTX.intern
    a = _atom(key)
    if not known:
        CTX.sgn_atoms.append(a.f[0][0])
        t, arg = z3f(a.f[0][0]), z3f(fid)
        CTX.assumptions.append(z3.Or(z3.And(t == 1, arg > 0), z3.And(t == -1, arg < 0), z3.And(t == 0, arg == 0)))
    return a


def sym_abs(x):
    x = to_rat(x)
    if isinstance(x, float):
        return abs(x)
    if not x.f:
        return Rat(abs(x.c), (), x.g)
    s = "+"
    for fid, e in x.f:
        s = _mul_sign(s, _pow_sign(CTX.sign[fid], e))
        if s is None:
            break
    if s in ("+", "0+"):
        return Rat(abs(x.c), x.f, x.g)
    if s == "-":
        return _neg_abs(x)
    if CTX.merge_sign:
        return sym_sgn(x) * x
    if bool(compare0(x, ">=")):
        return x
    return -x


def _neg_abs(x):
    # product of factors is negative: |x| = -(|c| * prod)
    return Rat(-abs(x.c), x.f, x.g)


def sym_sign(x):
    x = to_rat(x)
    if isinstance(x, float):
        return (x > 0) - (x < 0)
    if CTX.merge_sign:
        return sym_sgn(x)
    b = compare0(x, ">")
    if bool(b):
        return Rat(Fraction(1), (), x.g)
    b = compare0(x, "<")
    if bool(b):
        return Rat(Fraction(-1), (), x.g)
    return Rat(Fraction(0), (), x.g)


def sym_ite(cond, a, b):
    """merged conditional value (cond: SymBool/bool)."""
    if not isinstance(cond, SymBool):
        return a if cond else b
    a, b = to_rat(a), to_rat(b)
    if a.key() == b.key():
        return Rat(a.c, a.f, a.g | b.g)
    key = ("ite", cond.t.get_id(), a.key(), b.key())
    known = key in CTX.intern
    CTX._keep.append(cond.t)
    r = _atom(key, (cond.t, Rat(a.c, a.f), Rat(b.c, b.f)))
    if not known:
        CTX.ite_atoms.append(r.f[0][0])
    return Rat(r.c, r.f, a.g | b.g)


def uf(name, *args, sign=None):
    """uninterpreted value keyed by (name, args) -- congruence by interning (args must be hashable keys)."""
    key = ("uf", name, tuple(a.key() if isinstance(a, Rat) else a for a in args))
    known = key in CTX.intern
    r = _atom(key, None, sign)
    if not known:
        CTX.uf_atoms.append(r.f[0][0])
        if sign is not None:
            t = z3f(r.f[0][0])
            CTX.assumptions.append({"+": t > 0, "-": t < 0, "0+": t >= 0, "nz": t != 0}[sign])
    return r


# ----------------------------------------------------------------------------------------------------------------------
# axioms for atoms occurring in a set of factors


def reachable_factors(fids):
    seen = set()
    stack = list(fids)
    while stack:
        fid = stack.pop()
        if fid in seen:
            continue
        seen.add(fid)
        k = CTX.factors[fid]
        if k[0] == "p":
            for m in CTX.fdata[fid]:
                stack.extend(f for f, _ in m)
        elif k[0] in ("log", "sqrt", "sgn"):
            stack.append(k[1])
        elif k[0] == "exp":
            stack.extend(f for f, _ in CTX.fdata[fid].f)
        elif k[0] == "ite":
            _, a, b = CTX.fdata[fid]
            stack.extend(f for f, _ in a.f)
            stack.extend(f for f, _ in b.f)
    return seen


def atom_axioms(fids, level=1, exp_monotone=False):
    """true facts about the atoms among ``fids`` (closed under reachability).
    level 0: signs only; level 1: + defining equations (sqrt: a*a=t, sgn, ite) and exp/log congruence."""
    ax = []
    fs = reachable_factors(fids)
    exps = []
    for fid in sorted(fs):
        k = CTX.factors[fid]
        t = z3f(fid)
        if k[0] == "exp":
            ax.append(t > 0)
            exps.append(fid)
        elif k[0] == "sqrtp":
            ax.append(t > 0)
            if level >= 1:
                ax.append(t * t == k[1])
        elif k[0] == "logp":
            ax.append(t > 0)
            if level >= 1:
                lo, hi = _log_enclosure(k[1])
                ax.append(z3.And(t > _z3c(lo), t < _z3c(hi)))
        elif k[0] == "sqrt":
            ax.append(t >= 0)
            if CTX.sign[fid] == "+":
                ax.append(t > 0)
            if level >= 1:
                ax.append(t * t == z3f(k[1]))
        elif k[0] == "sgn":
            a = z3f(k[1])
            ax.append(z3.Or(z3.And(t == 1, a > 0), z3.And(t == -1, a < 0), z3.And(t == 0, a == 0)))
        elif k[0] == "ite":
            c, a, b = CTX.fdata[fid]
            # t == a if c else b   (a, b may have denominators: multiply through)
            ax.append(z3.If(c, _eq_rat(t, a), _eq_rat(t, b)))
    if level >= 1 and len(exps) > 1:
        # arguments that are provably equal are the same atom by interning; nothing more is needed for equality.
        if exp_monotone:
            for i in range(len(exps)):
                for j in range(i + 1, len(exps)):
                    a, b = CTX.fdata[exps[i]], CTX.fdata[exps[j]]
                    d = _add(a, -b)
                    sp = z3signpoly(d)
                    ta, tb = z3f(exps[i]), z3f(exps[j])
                    ax.append(z3.And(z3.Implies(sp > 0, ta > tb), z3.Implies(sp < 0, ta < tb), z3.Implies(sp == 0, ta == tb)))
    return ax


def _eq_rat(t, r):
    num = _z3mono(r.c, tuple((f, e) for f, e in r.f if e > 0))
    den = tuple((f, -e) for f, e in r.f if e < 0)
    if not den:
        return t == num
    return t * _z3mono(1, den) == num


def _log_enclosure(p):
    """rational enclosure of log(p) (p prime), width ~1e-15, outward."""
    v = math.log(p)
    w = Fraction(1, 10 ** 12) * max(1, int(abs(v)))
    lo = Fraction(v) - w
    hi = Fraction(v) + w
    return lo, hi


# ----------------------------------------------------------------------------------------------------------------------
# guards


def guard_terms(gset):
    out = []
    for gid in sorted(gset):
        kind, fid = CTX.guard_tab[gid]
        t = z3f(fid)
        out.append((gid, kind, fid, {"nz": t != 0, "pos": t > 0, "nonneg": t >= 0}[kind]))
    return out


def rat_factors(r):
    return [fid for fid, _ in r.f]


# ----------------------------------------------------------------------------------------------------------------------
# numeric evaluation (replay, fingerprints)


def eval_float(r, env, memo=None):
    """evaluate a Rat numerically; env: {var name: float}.  Atoms are evaluated by their true functions."""
    if memo is None:
        memo = {}
    v = float(r.c)
    for fid, e in r.f:
        v *= _evalf(fid, env, memo) ** e
    return v


def _evalf(fid, env, memo):
    if fid in memo:
        return memo[fid]
    k = CTX.factors[fid]
    if k[0] == "v":
        v = float(env[k[1]])
    elif k[0] == "p":
        v = 0.0
        for m, c in CTX.fdata[fid].items():
            t = float(c)
            for f, e in m:
                t *= _evalf(f, env, memo) ** e
            v += t
    elif k[0] == "log":
        v = math.log(_evalf(k[1], env, memo))
    elif k[0] == "sqrt":
        v = math.sqrt(max(_evalf(k[1], env, memo), 0.0))
    elif k[0] == "logp":
        v = math.log(k[1])
    elif k[0] == "sqrtp":
        v = math.sqrt(k[1])
    elif k[0] == "exp":
        v = math.exp(eval_float(CTX.fdata[fid], env, memo))
    elif k[0] == "sgn":
        a = _evalf(k[1], env, memo)
        v = float((a > 0) - (a < 0))
    elif k[0] == "uf":
        v = float(env[("uf", fid)]) if ("uf", fid) in env else float(env.get(fname(fid), 0.0))
    else:
        raise NotImplementedError(k[0])
    memo[fid] = v
    return v
