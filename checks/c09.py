"""C09 -- KAURI trees respect their structural limits and reproduce their own partition.

The REAL ``Kauri.fit`` growth loop is executed with ``find_best_split`` replaced by a NONDETERMINISTIC stub that may
return ANY split satisfying the search's contract (explorable leaf, feature of the drawn subset, threshold between two
distinct observed values with both sides >= min_samples_leaf, star / double-star / switch / reallocation targets allowed
by max_clusters) or "no positive gain"; the choice is a symbolic integer forked over all its values, so every tree the
loop can build from any kernel is explored (the contract itself is what C08 checks on the real search).
Post-conditions on every path: leaves <= max_leaves, depth <= max_depth, clusters <= max_clusters and labelled
contiguously, every leaf >= min_samples_leaf, no split node with < min_samples_split samples (root included),
thresholds are observed values, one cluster per leaf, 2*leaves-1 nodes, labels_ == routing of the training data through
the real Tree.predict, a fresh SYMBOLIC point is routed to the leaf whose threshold box contains it, and the real
score() equals J of the predicted labels for a fully symbolic kernel.
"""
from __future__ import annotations

import itertools
import time
from fractions import Fraction

import numpy as np
import z3

from symx import core, harness, loader, runner
from symx.core import K, to_rat
from symx.explore import Explorer, PathError
from . import c08

PROP = "C09"


class _Rng:
    """check_random_state stub: `choice(d, size=m, replace=False)` is ANY m-subset (forked)"""

    def __init__(self, log):
        self.log = log
        self.calls = 0

    def choice(self, a, size=None, replace=True, p=None):
        d = int(a)
        m = int(size)
        if m > d and not replace:
            raise ValueError("Cannot take a larger sample than population when 'replace=False'")   # NumPy's contract
        subs = list(itertools.combinations(range(d), m))
        self.calls += 1
        if len(subs) == 1:
            return np.array(subs[0])
        i = core.SymInt(f"feat{self.calls}", 0, len(subs) - 1).concretise()
        return np.array(subs[i])


def _state_from(Y, Z, n_leaves, n_clusters, X):
    leaves = [sorted(np.nonzero(Z[j])[0].tolist()) for j in range(n_leaves)]
    clusters = [sorted(np.nonzero(Y[k, :n_leaves])[0].tolist()) for k in range(n_clusters)]
    return {"X": X, "leaves": leaves, "clusters": clusters}


SCENARIOS = {
    # growth histories that the exhaustive jobs (n <= 4) cannot contain: five samples, four splits
    # A: a leaf of a cluster holding several leaves is split and BOTH children go to two other existing clusters
    "both-children-reallocated": [dict(leaf=0, thr=2.0, tl=0, tr=1), dict(leaf=0, thr=1.0, tl=0, tr=2), dict(leaf=1, thr=3.0, tl=1, tr=0), dict(leaf=0, thr=0.0, tl=1, tr=2)],
    # B: the LAST split is shallower than an earlier one (best-gain-first growth does that)
    "last-split-shallower": [dict(leaf=0, thr=2.0, tl=0, tr=1), dict(leaf=0, thr=1.0, tl=0, tr=2), dict(leaf=0, thr=0.0, tl=0, tr=3), dict(leaf=1, thr=3.0, tl=1, tr=0)],
    # C: a deep chain on the right, then the left child of the root
    "right-chain-then-left": [dict(leaf=0, thr=1.0, tl=0, tr=1), dict(leaf=1, thr=2.0, tl=1, tr=2), dict(leaf=2, thr=3.0, tl=2, tr=3), dict(leaf=0, thr=0.0, tl=0, tr=1)],
}


def job_scenario(name, max_clusters=4):
    """one scripted growth history through the REAL Kauri.fit (the stub hands over the scripted splits, each checked to be among the
    admissible ones of the C08 oracle), then every post-condition and the symbolic new-point routing"""
    script = SCENARIOS[name]
    X = [[0.0], [1.0], [2.0], [3.0], [4.0]]
    hp = dict(max_clusters=max_clusters, max_depth=None, min_samples_split=2, min_samples_leaf=1, max_leaves=None, max_features=None)
    return job(X, hp, max_paths=64, script=script, tagname=f"scenario/{name}")


def job(X, hp, max_paths=60000, script=None, tagname=None):
    """X: list of rows (concrete feature values: only order/ties matter); hp: Kauri hyper-parameters"""
    loader.install()
    res = {"paths": 0, "queries": 0, "obligations": [], "violations": [], "validated": 0, "witnesses": 0, "samples": []}
    X = np.array(X, dtype=float)
    n, d = X.shape
    kmod = loader.load("tree.kauri")
    U = loader.load("tree._utils")
    box = {}

    def setup():
        log = {"splits": [], "step": 0}
        box["log"] = log
        kmod.check_array = lambda a, **kw: a
        kmod._validate_data = lambda est, a, **kw: a
        kmod.check_random_state = lambda rs: _Rng(log)
        kmod.check_is_fitted = lambda est, *a, **kw: None

        def stub(kernel, Xa, leaves_to_explore, Y, Z, n_clusters, K_max, n_leaves, min_leaf, feature_subset):
            st = _state_from(Y, Z, int(n_leaves), int(n_clusters), Xa)
            alts = c08.alternatives(st, int(K_max), int(min_leaf), [int(j) for j in leaves_to_explore], [int(f) for f in feature_subset])
            log["step"] += 1
            if script is not None:
                if log["step"] > len(script):
                    return U.Split(0, -1, -1, -1, -1, 0, False)
                want = script[log["step"] - 1]
                hit = [a_i for a_i, a in enumerate(alts) if a[0] == want["leaf"] and a[2] == want["thr"] and a[6] == want["tl"] and a[7] == want["tr"]]
                if not hit:
                    log["script_invalid"] = log["step"]
                    return U.Split(0, -1, -1, -1, -1, 0, False)
                i = hit[0]
            else:
                i = core.SymInt(f"split{log['step']}", 0, len(alts)).concretise() if alts else 0
            if i == len(alts):
                return U.Split(0, -1, -1, -1, -1, 0, False)
            j, f, t, Ls, Rs, kind, tl, tr = alts[i]
            log["splits"].append({"leaf": j, "feature": f, "threshold": t, "L": Ls, "R": Rs, "kind": kind, "tl": tl, "tr": tr,
                                  "explore": [int(x) for x in leaves_to_explore], "n_leaf": len(Ls) + len(Rs)})
            return U.Split(core.var(f"gain{log['step']}", "+"), j, tl, tr, f, t, False)
        kmod.find_best_split = stub
        kernel = harness.symmetric_matrix(n, "k")
        mdl = kmod.Kauri(kernel="precomputed", **hp)
        box["mdl"] = mdl
        box["kernel"] = kernel
        return mdl

    def body(mdl):
        mdl.fit(X, box["kernel"])
        return mdl

    ex = Explorer(max_paths=max_paths, max_depth=200)
    tagbase = tagname or f"grow/n{n}d{d}/{_hp_str(hp)}"
    bad_sigs = set()
    for out, pc, trace in ex.run(body, setup):
        res["paths"] += 1
        tag = f"{tagbase}/path{res['paths']}"
        log = box["log"]
        if isinstance(out, PathError):
            exc = out.exc
            # Kauri's own consistency check (2*min_samples_leaf > min_samples_split) raising is documented behaviour
            if isinstance(exc, ValueError) and "Contradiction" in str(exc):
                res["obligations"].append({"name": tag + "/inconsistent limits rejected", "verdict": "unsat", "how": "syntactic"})
                continue
            res["obligations"].append({"name": tag + "/fit raised", "verdict": "sat", "how": repr(out)[:300]})
            _viol(res, bad_sigs, f"{PROP}:fit-raises:{type(exc).__name__}", f"Kauri.fit raises {type(exc).__name__} on a valid configuration", X, hp, log, tag)
            continue
        mdl = out
        if script is not None:
            okscript = "script_invalid" not in log and len(log["splits"]) == len(script)
            res["obligations"].append({"name": f"{tag}/the scripted history is admissible and was followed ({len(log['splits'])} splits)", "verdict": "unsat" if okscript else "unknown", "how": "syntactic"})
        checks = _postconditions(mdl, X, hp, log, box["kernel"], kmod, U)
        for nm, ok, sig, what in checks:
            res["obligations"].append({"name": f"{tag}/{nm}", "verdict": "unsat" if ok else "sat", "how": "path-evaluation"})
            if not ok:
                _viol(res, bad_sigs, sig, what, X, hp, log, tag)
        # fresh symbolic point: real Tree.predict vs the leaf boxes
        for o in _route_symbolic(mdl, d, ex, tag):
            res["obligations"].append(o)
            if o["verdict"] == "sat":
                _viol(res, bad_sigs, f"{PROP}:routing:new-point", "a new point is not routed to the leaf region that contains it", X, hp, log, tag)
        if len(res["samples"]) < 2 and log["splits"]:
            res["samples"].append({"X": X.tolist(), "hp": hp, "splits": [{k: s[k] for k in ("leaf", "feature", "threshold", "kind", "tl", "tr")} for s in log["splits"]],
                                   "labels_": np.asarray(mdl.labels_).tolist()})
    if ex.truncated or ex.depth_hits:
        res["obligations"].append({"name": tagbase + "/exploration", "verdict": "unknown", "how": "path budget exhausted"})
    return res


def _hp_str(hp):
    return ",".join(f"{k[:5]}={v}" for k, v in sorted(hp.items()))


def _postconditions(mdl, X, hp, log, kernel, kmod, U):
    n, d = X.shape
    t = mdl.tree_
    out = []
    leaves_nodes = [i for i in range(t.n_nodes) if t.children_left[i] == -1]
    n_leaves = len(leaves_nodes)
    max_leaves = hp.get("max_leaves") or n
    max_depth = hp.get("max_depth") or n
    out.append(("leaves<=max_leaves", n_leaves <= max_leaves, f"{PROP}:limit:max_leaves", "the tree has more leaves than max_leaves"))
    out.append(("depth<=max_depth", max(t.depths) <= max_depth, f"{PROP}:limit:max_depth", "the tree is deeper than max_depth"))
    out.append(("n_nodes==2*leaves-1", t.n_nodes == 2 * n_leaves - 1 and len(t.children_left) == t.n_nodes, f"{PROP}:structure:n_nodes", "node count is not 2*leaves-1"))
    labels = np.asarray(mdl.labels_)
    used = sorted(set(labels.tolist()))
    out.append(("labels in [0,max_clusters)", all(0 <= l < hp["max_clusters"] for l in used), f"{PROP}:limit:max_clusters", "a label is outside [0, max_clusters)"))
    out.append(("clusters contiguous from 0", used == list(range(len(used))), f"{PROP}:structure:contiguous-labels", "cluster labels are not contiguous from 0"))
    # samples per node by routing through the recorded splits
    members = {0: list(range(n))}
    ok_thr = True
    for node in range(t.n_nodes):
        if t.children_left[node] != -1:
            f, thr = t.features[node], t.thresholds[node]
            m = members[node]
            members[t.children_left[node]] = [i for i in m if X[i, f] <= thr]
            members[t.children_right[node]] = [i for i in m if X[i, f] > thr]
            ok_thr = ok_thr and any(X[i, f] == thr for i in m)
    min_leaf = hp.get("min_samples_leaf", 1)
    min_split = hp.get("min_samples_split", 2)
    out.append(("every leaf >= min_samples_leaf", all(len(members[l]) >= min_leaf for l in leaves_nodes), f"{PROP}:limit:min_samples_leaf", "a leaf holds fewer than min_samples_leaf samples"))
    small_split = [node for node in range(t.n_nodes) if t.children_left[node] != -1 and len(members[node]) < min_split]
    root_only = small_split == [0]
    out.append(("no node with < min_samples_split samples is split", not small_split,
                f"{PROP}:limit:min_samples_split:{'root' if root_only else 'inner'}", "a node with fewer than min_samples_split samples is split"
                + (" (the root)" if root_only else "")))
    out.append(("thresholds are observed feature values of the node", ok_thr, f"{PROP}:structure:threshold", "a threshold is not an observed value of the split node"))
    # one cluster per leaf + labels_ consistent with the tree targets
    leaf_of = {}
    for l in leaves_nodes:
        for i in members[l]:
            leaf_of[i] = l
    per_leaf = all(len(set(labels[members[l]].tolist())) <= 1 for l in leaves_nodes if members[l])
    out.append(("each leaf in exactly one cluster", per_leaf, f"{PROP}:structure:leaf-cluster", "a leaf holds samples of two clusters"))
    pred = np.asarray(mdl.tree_.predict(X))
    out.append(("predict(training data)==labels_", bool(np.array_equal(pred, labels)), f"{PROP}:routing:training", "routing the training data through the tree does not reproduce labels_"))
    tgt_ok = all(t.target[leaf_of[i]] == labels[i] for i in range(n))
    out.append(("leaf targets == labels_", tgt_ok, f"{PROP}:structure:targets", "a leaf's target differs from the label of its samples"))
    # score == kernel k-means objective of the predicted labels (symbolic kernel)
    try:
        sc = to_rat(mdl.score(X, kernel))
        clusters = [[i for i in range(n) if pred[i] == k] for k in sorted(set(pred.tolist()))]
        ref = to_rat(c08.J_of(kernel, clusters))
        okscore = (sc - ref).c == 0
    except Exception:
        okscore = False
    out.append(("score == J(predicted labels)", okscore, f"{PROP}:score", "score differs from sum_k sigma(C_k x C_k)/|C_k| of the predicted labels"))
    return out


def _boxes(t):
    """leaf -> list of (feature, 'le'|'gt', threshold) constraints"""
    out = {}

    def walk(node, cons):
        if t.children_left[node] == -1:
            out[node] = cons
            return
        f, thr = t.features[node], t.thresholds[node]
        walk(t.children_left[node], cons + [(f, "le", thr)])
        walk(t.children_right[node], cons + [(f, "gt", thr)])
    walk(0, [])
    return out


def _route_symbolic(mdl, d, ex, tag):
    """a fresh symbolic point: the real Tree.predict forks on every `<=`; each outcome is compared with the leaf boxes.
    Decisions taken here extend the current path; the explorer revisits the alternatives as separate paths."""
    t = mdl.tree_
    if t.n_nodes == 1:
        return []
    x = np.empty((1, d), dtype=object)
    for f in range(d):
        x[0, f] = core.var(f"q_{f}")
    try:
        lab = int(np.asarray(t.predict(x))[0])
    except Exception as e:
        return [{"name": tag + "/new point routing", "verdict": "sat", "how": f"Tree.predict raised {type(e).__name__}: {e}"}]
    # which box contains the point on this path?  evaluate every constraint with the decisions already taken
    hits = []
    for leaf, cons in _boxes(t).items():
        inside = True
        for f, op, thr in cons:
            b = (x[0, f] <= thr)
            val = bool(b)          # cached decision (same term) or a forced one
            if (op == "le") != val:
                inside = False
                break
        if inside:
            hits.append(leaf)
    ok = len(hits) == 1 and t.target[hits[0]] == lab
    return [{"name": tag + "/new point gets the label of the leaf box containing it", "verdict": "unsat" if ok else "sat", "how": "path-evaluation", "boxes_hit": len(hits)}]


def _viol(res, bad_sigs, sig, what, X, hp, log, tag):
    if sig in bad_sigs:
        return
    rep = {"X": np.asarray(X).tolist(), "hp": hp, "splits": [{k: (v if not isinstance(v, (np.integer,)) else int(v)) for k, v in s.items()} for s in log["splits"]], "expect": sig}
    got = replay(rep)
    if got and sig in got:
        bad_sigs.add(sig)
        res["violations"].append({"signature": sig, "what": what, "replay": rep})
    else:
        res["obligations"][-1]["verdict"] = "inconclusive"


def replay(rep, verbose=False):
    """REAL Kauri.fit (real numpy, real validation) with find_best_split scripted to return the recorded splits."""
    kmod = loader.real("tree.kauri")
    U = loader.real("tree._utils")
    X = np.array(rep["X"], dtype=float)
    n, d = X.shape
    script = list(rep["splits"])
    saved = kmod.find_best_split

    def scripted(kernel, Xa, leaves_to_explore, Y, Z, n_clusters, K_max, n_leaves, min_leaf, feature_subset):
        if not script:
            return U.Split(0.0, -1, -1, -1, -1, 0.0, False)
        s = script.pop(0)
        return U.Split(1.0, s["leaf"], s["tl"], s["tr"], s["feature"], s["threshold"], False)
    kmod.find_best_split = scripted
    sigs = set()
    try:
        rng = np.random.default_rng(0)
        G = rng.normal(size=(n, n))
        Km = G @ G.T
        mdl = kmod.Kauri(kernel="precomputed", **rep["hp"])
        try:
            mdl.fit(X, Km)
        except Exception as e:
            if isinstance(e, ValueError) and "Contradiction" in str(e):
                return set()
            if verbose:
                print("fit raised", type(e).__name__, e)
            return {f"{PROP}:fit-raises:{type(e).__name__}"}
        for nm, ok, sig, what in _pc_generic(mdl, X, rep["hp"], Km):
            if not ok:
                sigs.add(sig)
                if verbose:
                    print("FAILS:", nm, "--", what)
        # new points: at, next to and away from every threshold (all combinations over the features), real Tree.predict vs the leaf boxes
        t = mdl.tree_
        if t.n_nodes > 1:
            import itertools as _it
            per_f = []
            for f in range(d):
                vals = {float(X[:, f].min()) - 1.0, float(X[:, f].max()) + 1.0}
                for node in range(t.n_nodes):
                    if t.children_left[node] != -1 and t.features[node] == f:
                        thr = float(t.thresholds[node])
                        vals.update([thr, np.nextafter(thr, np.inf), np.nextafter(thr, -np.inf), thr + 1e-9, thr - 1e-9,
                                     thr + 1e-6 * (1 + abs(thr)), thr - 1e-6 * (1 + abs(thr)), thr + 0.25, thr - 0.25])
                per_f.append(sorted(vals))
            Q = np.array(list(_it.islice(_it.product(*per_f), 20000)), dtype=float)
            got = np.asarray(t.predict(Q))
            boxes = _boxes(t)
            for qi, q in enumerate(Q):
                hit = [leaf for leaf, cons in boxes.items() if all((q[f] <= thr) == (op == "le") for f, op, thr in cons)]
                if len(hit) != 1 or t.target[hit[0]] != got[qi]:
                    sigs.add(f"{PROP}:routing:new-point")
                    if verbose:
                        print("FAILS: new point", q.tolist(), "predict", int(got[qi]), "leaf boxes containing it", hit, "targets", [int(t.target[h]) for h in hit])
                    break
        if verbose:
            print("X", X.tolist(), "hp", rep["hp"], "tree thresholds", mdl.tree_.thresholds, "labels_", mdl.labels_.tolist())
    finally:
        kmod.find_best_split = saved
    return sigs


def _pc_generic(mdl, X, hp, Km):
    # the same post-conditions, float kernel for the score
    res = _postconditions(mdl, X, hp, {"splits": []}, _FloatKernel(Km), None, None)
    return res


class _FloatKernel:
    """float kernel usable both by the real score() and by the oracle J"""

    def __init__(self, Km):
        self.Km = Km

    def __getitem__(self, ij):
        return K(Fraction(float(self.Km[ij])))

    def __array__(self, dtype=None, copy=None):
        return np.asarray(self.Km, dtype=float)


# score with a float kernel: compare numerically instead of by normal form
_orig_post = _postconditions


def _postconditions(mdl, X, hp, log, kernel, kmod, U):  # noqa: F811
    if isinstance(kernel, _FloatKernel):
        out = [c for c in _orig_post(mdl, X, hp, log, harness.symmetric_matrix(X.shape[0], "kz"), kmod, U) if not c[0].startswith("score")]
        Km = kernel.Km
        pred = np.asarray(mdl.tree_.predict(X))
        sc = float(mdl.score(X, Km))
        ref = sum(Km[np.ix_(np.where(pred == k)[0], np.where(pred == k)[0])].sum() / max(1, int((pred == k).sum())) for k in sorted(set(pred.tolist())))
        out.append(("score == J(predicted labels)", abs(sc - ref) <= 1e-9 * max(1.0, abs(ref)), f"{PROP}:score", "score differs from the kernel k-means objective of the predicted labels"))
        return out
    return _orig_post(mdl, X, hp, log, kernel, kmod, U)


# ----------------------------------------------------------------------------------------------------------------------


def _grids(tier):
    q = tier == "quick"
    Xs = {
        "n2": [[0.0], [1.0]],
        "n3": [[0.0], [1.0], [2.0]],
        "n3tie": [[0.0], [0.0], [1.0]],
        "n4": [[0.0], [1.0], [2.0], [3.0]],
        "n4tie": [[0.0], [1.0], [1.0], [2.0]],
        "n3d2": [[0.0, 2.0], [1.0, 0.0], [2.0, 1.0]],
        "n4d2": [[0.0, 1.0], [1.0, 3.0], [2.0, 0.0], [3.0, 2.0]],
        "n4const": [[0.0, 5.0], [1.0, 5.0], [2.0, 5.0], [3.0, 5.0]],
        "n4const0": [[5.0, 0.0], [5.0, 2.0], [5.0, 1.0], [5.0, 3.0]],          # a constant column BEFORE the informative one
        "n3const1d3": [[0.0, 7.0, 1.0], [2.0, 7.0, 0.0], [1.0, 7.0, 2.0]],     # ... between two informative ones
    }
    hps = []
    for mc in (1, 2, 3):
        for md in (None, 1, 2):
            for mss, msl in ((2, 1), (3, 1), (4, 2), (4, 1)):
                for ml in (None, 2, 3):
                    for mf in (None, 1, 5):
                        hps.append(dict(max_clusters=mc, max_depth=md, min_samples_split=mss, min_samples_leaf=msl, max_leaves=ml, max_features=mf))
    plan = []
    if q:
        # corners: every hyper-parameter at each of its values at least once against the others' defaults + interacting corners
        base = dict(max_clusters=3, max_depth=None, min_samples_split=2, min_samples_leaf=1, max_leaves=None, max_features=None)
        picks = [base]
        for k, vals in dict(max_clusters=[1, 2], max_depth=[1, 2], min_samples_split=[3, 4], max_leaves=[2, 3], max_features=[1, 3, 7]).items():
            for v in vals:
                picks.append(dict(base, **{k: v}))
        picks += [dict(base, min_samples_split=4, min_samples_leaf=2), dict(base, max_depth=1, max_leaves=3, max_clusters=2),
                  dict(base, min_samples_split=3, max_depth=2, max_clusters=2), dict(base, min_samples_split=2, min_samples_leaf=2)]
        for xn in ("n4const0", "n3const1d3"):
            plan.append((xn, base))
            plan.append((xn, dict(base, max_features=1)))
        for xn in ("n3", "n3tie", "n4", "n4d2"):
            for hp in picks:
                if xn in ("n4", "n4d2") and hp.get("max_clusters", 3) == 3 and hp.get("max_leaves") is None and hp.get("max_depth") is None and hp["min_samples_split"] == 2 and xn == "n4d2":
                    hp = dict(hp, max_features=1)
                plan.append((xn, hp))
    else:
        for xn in Xs:
            for hp in hps:
                if 2 * hp["min_samples_leaf"] > hp["min_samples_split"]:
                    continue
                plan.append((xn, hp))
        plan.append(("n3", dict(max_clusters=2, min_samples_split=2, min_samples_leaf=2)))
    return Xs, plan


def jobs(tier):
    Xs, plan = _grids(tier)
    out = []
    for xn, hp in plan:
        out.append({"name": f"grow/{xn}/{_hp_str(hp)}", "target": "checks.c09:job", "kwargs": dict(X=Xs[xn], hp=hp), "timeout": 280 if tier == "quick" else 1800})
    for nm in SCENARIOS:
        out.append({"name": f"scenario/{nm}", "target": "checks.c09:job_scenario", "kwargs": dict(name=nm), "timeout": 280})
    return out


def run(tier, seed, only=None, nproc=None):
    t0 = time.time()
    js = [j for j in jobs(tier) if not only or only in j["name"]]
    pairs = runner.run_jobs(js, nproc=nproc, seed=seed)
    return runner.finish(
        PROP, tier, seed, pairs, t0,
        assumptions=["find_best_split is replaced by a nondeterministic stub returning ANY contract-satisfying split (the contract is C08's subject)",
                     "validation stubbed to the identity; random feature subsets: every subset of the requested size",
                     "data enter only through order/ties of the feature values (listed datasets, n <= 4, d <= 2)"],
        bounds={"tier": tier, "configurations": len(js), "datasets": "n<=4, d<=3: distinct values, ties, a constant column last / first / in the middle"},
        stubs=["find_best_split -> nondeterministic contract stub", "check_array/validate_data -> identity", "check_random_state.choice -> any subset"])
