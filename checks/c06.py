"""C06 -- unselected features are inert; selection reads exact zeros; groups stay whole; shrinkage wiring.

All on the REAL methods of the sparse models with symbolic weights (an ARBITRARY reachable-or-not weight state):
 select  : get_selection() / _n_selected_features() return exactly the rows with a non-zero (skip-)weight entry
 inert   : with row j of W_ (W_skip_ and W1_) zero, _infer(X) and _infer(X') for X' differing in column j only are identical terms
 wiring  : one real _update_weights (optimiser stubbed: no-op, SYMBOLIC current learning rate distinct from the constructor's):
           afterwards the weights equal the real prox function of checks C05 applied to the pre-prox weights with threshold
           alpha * optimiser.learning_rate (alpha >= 0 symbolic, alpha = 0 included), applied in place
 hier    : after that step, a zero skip row implies a zero first-layer row (the invariant behind `inert` for sparse MLPs)
 groups  : after a group prox every declared group is entirely zero, or each of its rows is zero exactly when it was before;
           check_groups completes partial group lists with singletons into a partition
"""
from __future__ import annotations

import itertools
import time
from fractions import Fraction

import numpy as np

from symx import core, harness, loader, runner
from symx.core import K, to_rat
from symx.explore import Explorer, PathError
from . import common_models as cm
from .c05 import partitions

PROP = "C06"


def _new():
    return {"paths": 0, "queries": 0, "obligations": [], "violations": [], "validated": 0, "witnesses": 0, "samples": []}


def _sel_attr(family):
    return "W_skip_" if cm.BASE[family] == "smlp" else "W_"


class _Opt:
    """optimiser stub.  Like Adam, it may RE-COMPUTE its learning rate inside the step (lr_after): the proximal threshold must use
    the rate the optimiser has after `update_params`, i.e. the one the step was actually made with."""

    def __init__(self, lr, lr_after=None):
        self.learning_rate = lr
        self.lr_after = lr_after
        self.calls = []

    def _step(self):
        self.calls.append("update")
        if self.lr_after is not None:
            self.learning_rate = self.lr_after

    def update_params(self, params, grads):
        self._step()


class _OptMove(_Opt):
    """an optimiser step that moves every weight somewhere else: `make(name, shape)` supplies the post-step values"""

    def __init__(self, lr, names, make, after=None):
        super().__init__(lr)
        self.names, self.make, self.after = names, make, after

    def update_params(self, params, grads):
        self._step()
        for nm, w in zip(self.names, params):
            new = self.make(nm.rstrip("_") + "n", w.shape)
            for idx in np.ndindex(w.shape):
                w[idx] = new[idx]
        if self.after:
            self.after()


def _key(a):
    return [to_rat(x).key() if not isinstance(x, core.UndefinedValue) else ("undef",) for x in np.asarray(a, dtype=object).reshape(-1)]


def job_select(family, shape):
    loader.install()
    res = _new()
    box = {}

    def setup():
        mdl, X, params, dm = cm.build_symbolic(family, shape)
        box.update(mdl=mdl, dm=dm)
        return mdl

    def body(mdl):
        sel = [int(i) for i in mdl.get_selection()]
        cnt = int(mdl._n_selected_features())
        W = getattr(mdl, _sel_attr(family))
        want = [j for j in range(W.shape[0]) if any(bool(to_rat(W[j, k]) != 0) for k in range(W.shape[1]))]
        return sel, cnt, want

    ex = Explorer(max_paths=4000)
    seen = False
    for out, pc, trace in ex.run(body, setup):
        res["paths"] += 1
        tag = f"select/{family}/{cm.shape_str(shape)}/path{res['paths']}"
        if isinstance(out, PathError):
            res["obligations"].append({"name": tag + "/path-error", "verdict": "inconclusive", "how": repr(out)[:300]})
            continue
        sel, cnt, want = out
        ok = sel == want and cnt == len(want)
        o = {"name": tag + "/selection == rows with a non-zero entry", "verdict": "unsat" if ok else "sat", "how": "path-evaluation"}
        res["obligations"].append(o)
        if not ok:
            v, model = harness.reachable(list(ex.pc), timeout_s=8.0)
            res["queries"] += 1
            rep = {"kind": "select", "family": family, "shape": list(shape), "model": {k: str(x) for k, x in (model or {}).items() if "!" not in k}}
            if v == "sat" and replay(rep):
                if not seen:
                    seen = True
                    res["violations"].append({"signature": f"{PROP}:{family}:selection", "what": f"{family}.get_selection/_n_selected_features do not report exactly the non-zero weight rows", "replay": rep})
            else:
                o["verdict"] = "unsat" if v == "unsat" else "inconclusive"
        if len(res["samples"]) < 1:
            res["samples"].append({"obligation": tag, "selection": sel, "expected": want})
    return res


def job_inert(family, shape):
    loader.install()
    res = _new()
    dm0 = cm.dims(family, shape)
    for j in range(dm0["d"]):
        box = {}

        def setup():
            core.CTX.strict = True
            mdl, X, params, dm = cm.build_symbolic(family, shape)
            for nm in ("W_", "W_skip_", "W1_"):
                if hasattr(mdl, nm):
                    W = getattr(mdl, nm)
                    for k in range(W.shape[1]):
                        W[j, k] = K(0)
            box.update(mdl=mdl)
            return mdl, X

        def body(arg):
            mdl, X = arg
            P = mdl._infer(X, retain=False)
            X2 = X.copy()
            for i in range(X.shape[0]):
                X2[i, j] = core.var(f"y_{i}")
            P2 = mdl._infer(X2, retain=False)
            return P, P2

        ex = Explorer(max_paths=2000)
        for out, pc, trace in ex.run(body, setup):
            res["paths"] += 1
            tag = f"inert/{family}/{cm.shape_str(shape)}/feature{j}/path{res['paths']}"
            if isinstance(out, PathError):
                res["obligations"].append({"name": tag + "/path-error", "verdict": "inconclusive", "how": repr(out)[:300]})
                continue
            P, P2 = out
            same = _key(P) == _key(P2)
            o = {"name": tag + "/predict_proba unchanged when an unselected feature changes", "verdict": "unsat" if same else "sat", "how": "normal-form"}
            res["obligations"].append(o)
            if not same:
                v, model = harness.reachable(pc, timeout_s=8.0)
                res["queries"] += 1
                rep = {"kind": "inert", "family": family, "shape": list(shape), "feature": j, "model": {k: str(x) for k, x in (model or {}).items() if "!" not in k}}
                if v == "sat" and replay(rep):
                    res["violations"].append({"signature": f"{PROP}:{family}:inert", "what": f"{family}: a feature whose weight rows are zero still changes predict_proba", "replay": rep})
                else:
                    o["verdict"] = "inconclusive"
    return res


def job_wiring(family, shape, groups=None, max_paths=6000, timeout_q=10.0, revive=None, dynamic=False):
    """revive=[j,...]: feature j is discarded in the state BEFORE the step (exact zero rows) and the optimiser step moves every
    weight to a fresh symbolic value: the shrinkage must still be the proximal step of the post-optimiser weights -- nothing may
    depend on which features were discarded before (in particular not in dynamic mode)."""
    loader.install()
    res = _new()
    box = {}
    b = cm.BASE[family]

    def scope(mdl):
        # the hierarchical operator's scope (C05): rows / groups whose skip weights are not all zero
        for g in ([[j] for j in range(mdl.W_skip_.shape[0])] if groups is None else groups):
            harness.assume(core.sym_sqrt(sum((to_rat(x) * to_rat(x) for j in g for x in mdl.W_skip_[j]), K(0))) > 0)

    def setup():
        mdl, X, params, dm = cm.build_symbolic(family, shape, hyper=({"dynamic": True} if dynamic else None))
        mdl.alpha = core.var("alpha", "0+")
        if b == "smlp":
            mdl.M = core.var("M", "0+")
            if not revive:
                scope(mdl)
        mdl.groups_ = groups
        if revive:
            for j in revive:
                for nm in ("W_", "W_skip_", "W1_"):
                    if hasattr(mdl, nm):
                        for idx in range(getattr(mdl, nm).shape[1]):
                            getattr(mdl, nm)[j, idx] = K(0)
            opt = _OptMove(core.var("lr", "+"), [nm for nm, _ in params], cm._sym_make, after=(lambda: (box.__setitem__("post", _snap(mdl)), scope(mdl) if b == "smlp" else None)))
            opt.lr_after = core.var("lr_after", "+")
        else:
            opt = _Opt(core.var("lr", "+"), lr_after=core.var("lr_after", "+"))
        mdl.optimiser_ = opt
        box.update(mdl=mdl, opt=opt)
        return mdl

    def _snap(mdl):
        return {nm: np.array(getattr(mdl, nm), dtype=object, copy=True) for nm in ("W_", "W_skip_", "W1_") if hasattr(mdl, nm)}

    def body(mdl):
        pg = loader.load("sparse._prox_grad")
        weights = mdl._get_weights()
        ids_before = [id(w) for w in weights]
        pre = _snap(mdl)
        grads = [np.zeros(w.shape) for w in weights]
        mdl._update_weights(weights, grads)
        if revive:
            pre = box["post"]      # the weights the proximal step is applied to: those the optimiser left
        thr = to_rat(mdl.alpha) * to_rat(box["opt"].learning_rate)
        if b == "smlp":
            if groups is None:
                eW, e1 = pg.mlp_prox_grad(pre["W_skip_"].copy(), pre["W1_"].copy(), thr, mdl.M)
            else:
                eW, e1 = pg.group_mlp_prox_grad(groups, pre["W_skip_"].copy(), pre["W1_"].copy(), thr, mdl.M)
            exp = {"W_skip_": eW, "W1_": e1}
        else:
            exp = {"W_": pg.linear_prox_grad(pre["W_"].copy(), thr) if groups is None else pg.group_linear_prox_grad(groups, pre["W_"].copy(), thr)}
        inplace = [id(w) for w in mdl._get_weights()] == ids_before
        return pre, exp, inplace

    ex = Explorer(max_paths=max_paths)
    gname = ("rows" if groups is None else "groups" + str(groups).replace(" ", "")) + (f"/revive{revive}{'/dynamic' if dynamic else ''}" if revive else "")
    seen = set()
    for out, pc, trace in ex.run(body, setup):
        res["paths"] += 1
        tag = f"wiring/{family}/{cm.shape_str(shape)}/{gname}/path{res['paths']}"
        mdl = box["mdl"]
        if isinstance(out, PathError):
            res["obligations"].append({"name": tag + "/path-error", "verdict": "inconclusive", "how": repr(out)[:300]})
            continue
        pre, exp, inplace = out
        ok_ip = box["opt"].calls == ["update"] and inplace
        res["obligations"].append({"name": tag + "/optimiser called once before the prox, weights updated in place", "verdict": "unsat" if ok_ip else "sat", "how": "syntactic"})
        if not ok_ip and f"{PROP}:{family}:not-in-place" not in seen:
            rep_ = {"kind": "wiring", "family": family, "shape": list(shape), "groups": groups, "inplace": True, "revive": revive, "dynamic": dynamic, "model": {}}
            if replay(rep_):
                seen.add(f"{PROP}:{family}:not-in-place")
                res["violations"].append({"signature": f"{PROP}:{family}:not-in-place", "what": f"{family}._update_weights rebinds a weight array instead of updating it in place (the optimiser and the path keep the old one)", "replay": rep_})
            else:
                res["obligations"][-1]["verdict"] = "inconclusive"
        bad = False
        for nm, e in exp.items():
            got = getattr(mdl, nm)
            same = _key(got) == _key(e)
            if not same:
                # normal forms differ: ask the solver entry by entry
                for a, c in zip(np.asarray(got, dtype=object).reshape(-1), np.asarray(e, dtype=object).reshape(-1)):
                    if isinstance(a, core.UndefinedValue) or isinstance(c, core.UndefinedValue):
                        continue
                    o = harness.prove_zero(to_rat(a) - to_rat(c), pc, timeout_s=timeout_q, name=f"{tag}/{nm} == prox(pre-prox weights, alpha*optimiser.learning_rate)")
                    res["queries"] += 1
                    if o["verdict"] != "unsat":
                        res["obligations"].append({k: v for k, v in o.items() if k != "model"})
                        rep = {"kind": "wiring", "family": family, "shape": list(shape), "groups": groups, "revive": revive, "dynamic": dynamic, "model": {k: str(x) for k, x in (o.get("model") or {}).items() if "!" not in k}}
                        sig = f"{PROP}:{family}:wiring"
                        if o["verdict"] == "sat" and o.get("model") and replay(rep):
                            if sig not in seen:
                                seen.add(sig)
                                res["violations"].append({"signature": sig, "what": f"{family}._update_weights: the shrinkage is not the proximal step with threshold alpha * optimiser.learning_rate", "replay": rep})
                        else:
                            res["obligations"][-1]["verdict"] = "inconclusive" if o["verdict"] == "sat" else o["verdict"]
                        bad = True
                        break
            if not bad:
                res["obligations"].append({"name": f"{tag}/{nm} == prox(pre-prox weights, alpha*optimiser.learning_rate)", "verdict": "unsat", "how": "normal-form" if same else "solver"})
        # hierarchy invariant and group wholeness on the post-state
        if b == "smlp" and not bad:
            Ws, W1 = np.asarray(mdl.W_skip_, dtype=object), np.asarray(mdl.W1_, dtype=object)
            rows = [[j] for j in range(Ws.shape[0])] if groups is None else groups
            for g in rows:
                zero_skip = all(to_rat(x).c == 0 for j in g for x in Ws[j])
                if zero_skip:
                    okh = all(to_rat(x).c == 0 for j in g for x in W1[j])
                    res["obligations"].append({"name": f"{tag}/zero skip rows {g} => zero first-layer rows", "verdict": "unsat" if okh else "sat", "how": "normal-form"})
                    if not okh and f"{PROP}:{family}:hierarchy" not in seen:
                        v, model = harness.reachable(pc, timeout_s=8.0)
                        rep = {"kind": "wiring", "family": family, "shape": list(shape), "groups": groups, "hier": True, "revive": revive, "dynamic": dynamic, "model": {k: str(x) for k, x in (model or {}).items() if "!" not in k}}
                        if v == "sat" and replay(rep):
                            seen.add(f"{PROP}:{family}:hierarchy")
                            res["violations"].append({"signature": f"{PROP}:{family}:hierarchy", "what": f"{family}: after an update a feature with zero skip weights keeps non-zero first-layer weights", "replay": rep})
        if groups is not None and not bad:
            W = np.asarray(getattr(mdl, _sel_attr(family)), dtype=object)
            P0 = pre[_sel_attr(family)]
            for g in groups:
                allzero = all(to_rat(x).c == 0 for j in g for x in W[j])
                if not allzero:
                    okg = all((all(to_rat(x).c == 0 for x in W[j])) == (all(to_rat(x).c == 0 for x in P0[j])) for j in g)
                    res["obligations"].append({"name": f"{tag}/group {g} thresholded as a whole", "verdict": "unsat" if okg else "sat", "how": "normal-form"})
                    if not okg and f"{PROP}:{family}:group-split" not in seen:
                        v, model = harness.reachable(pc, timeout_s=8.0)
                        res["queries"] += 1
                        rep = {"kind": "wiring", "family": family, "shape": list(shape), "groups": groups, "whole": list(g),
                               "model": {k: str(x) for k, x in (model or {}).items() if "!" not in k}}
                        if v == "sat" and replay(rep):
                            seen.add(f"{PROP}:{family}:group-split")
                            res["violations"].append({"signature": f"{PROP}:{family}:group-split",
                                                      "what": f"{family}: after an update the declared group {g} is split (some of its features discarded, others kept)", "replay": rep})
                        elif v == "unsat":
                            res["obligations"][-1]["verdict"] = "unsat"
                        else:
                            res["obligations"][-1]["verdict"] = "inconclusive"
        if len(res["samples"]) < 1:
            res["samples"].append({"obligation": tag, "pc_size": len(pc)})
    if ex.truncated:
        res["obligations"].append({"name": f"wiring/{family}/{gname}/exploration", "verdict": "unknown", "how": "path budget exhausted"})
    return res


def job_check_groups(d):
    """partial group lists are completed with singletons into a partition (every list of <= 2 disjoint groups over d features)"""
    res = _new()
    sb = loader.real("sparse._base_sparse")
    feats = list(range(d))
    n = 0
    for r in range(0, d + 1):
        for chosen in itertools.combinations(feats, r):
            for part in partitions(chosen):
                n += 1
                try:
                    out = sb.check_groups([list(g) for g in part] or None, d) if part else sb.check_groups(None, d)
                except Exception as e:
                    out = e
                if not part:
                    ok = out is None
                else:
                    flat = sorted(i for g in out for i in g) if not isinstance(out, Exception) else None
                    ok = flat == feats and [list(g) for g in out[:len(part)]] == [list(g) for g in part] and all(len(g) == 1 for g in out[len(part):])
                res["obligations"].append({"name": f"check_groups/d{d}/{part}", "verdict": "unsat" if ok else "sat", "how": "concrete-exhaustive"})
                if not ok and not res["violations"]:
                    res["violations"].append({"signature": f"{PROP}:check_groups:completion", "what": "check_groups does not complete a partial group list with singletons into a partition",
                                              "replay": {"kind": "check_groups", "d": d, "groups": [list(g) for g in part]}})
    res["paths"] = n
    res["samples"].append({"group_lists": n, "d": d})
    return res


def replay(rep, verbose=False):
    kind = rep["kind"]
    if kind == "check_groups":
        sb = loader.real("sparse._base_sparse")
        try:
            out = sb.check_groups(rep["groups"], rep["d"])
        except Exception:
            return True
        return sorted(i for g in out for i in g) != list(range(rep["d"]))
    family, shape = rep["family"], tuple(rep["shape"])
    model = {k: Fraction(v) for k, v in rep.get("model", {}).items()}
    rng = np.random.default_rng(2)
    for attempt in range(4):
        mdl, X, params, dm, G = cm.build_concrete(family, shape, model)
        if attempt:
            for _, arr in params:
                arr += rng.normal(size=arr.shape) * (arr == 0)
            X = X + rng.normal(size=X.shape) * (X == 0)
        if kind == "select":
            W = getattr(mdl, _sel_attr(family))
            want = [j for j in range(W.shape[0]) if np.any(W[j] != 0)]
            if [int(i) for i in mdl.get_selection()] != want or int(mdl._n_selected_features()) != len(want):
                return True
        elif kind == "inert":
            j = rep["feature"]
            for nm in ("W_", "W_skip_", "W1_"):
                if hasattr(mdl, nm):
                    getattr(mdl, nm)[j, :] = 0
            P = mdl._infer(X, retain=False)
            X2 = X.copy()
            X2[:, j] += 1.7
            if not np.allclose(P, mdl._infer(X2, retain=False), rtol=1e-10, atol=1e-12):
                return True
        elif kind == "wiring":
            pg = loader.real("sparse._prox_grad")
            alpha = float(model.get("alpha", 0)) if attempt == 0 else [0.0, 0.7, 0.05][attempt - 1]
            lr = float(model.get("lr", 1)) or 1.0
            M = float(model.get("M", 0)) if attempt == 0 else [0.05, 1.0, 0.0][attempt - 1]
            mdl.alpha = alpha
            if cm.BASE[family] == "smlp":
                mdl.M = M
            mdl.groups_ = rep.get("groups")
            mdl.learning_rate = 0.123           # the constructor value must not be what is used
            lr_after = (float(model["lr_after"]) if attempt == 0 and float(model.get("lr_after", 0)) > 0 else 0.37 * lr)
            mdl.optimiser_ = _Opt(lr, lr_after=lr_after)
            if rep.get("revive"):
                mdl.dynamic = bool(rep.get("dynamic"))
                for j in rep["revive"]:
                    for nm in ("W_", "W_skip_", "W1_"):
                        if hasattr(mdl, nm):
                            getattr(mdl, nm)[j, :] = 0.0
                rng2 = np.random.default_rng(5 + attempt)

                def make(name, shp, model=model, rng2=rng2):
                    a = cm._float_make(model)(name, shp)
                    return a + rng2.normal(size=shp) * (a == 0)
                mdl.optimiser_ = _OptMove(lr, [nm for nm, _ in params], make)
                mdl.optimiser_.lr_after = lr_after
            pre = {nm: np.array(getattr(mdl, nm), copy=True) for nm in ("W_", "W_skip_", "W1_") if hasattr(mdl, nm)}
            ws = mdl._get_weights()
            with np.errstate(all="ignore"):
                if rep.get("revive"):
                    # the post-optimiser weights are what the proximal step sees: capture them as the step hands them over
                    opt = mdl.optimiser_
                    opt.after = lambda: pre.update({nm: np.array(getattr(mdl, nm), copy=True) for nm in pre})
                mdl._update_weights(ws, [np.zeros(w.shape) for w in ws])
                thr = alpha * mdl.optimiser_.learning_rate      # the rate the optimiser holds AFTER its step
                if cm.BASE[family] == "smlp":
                    if np.any(np.linalg.norm(pre["W_skip_"], axis=1) == 0):
                        continue
                    eW, e1 = (pg.mlp_prox_grad(pre["W_skip_"], pre["W1_"], thr, M) if rep.get("groups") is None
                              else pg.group_mlp_prox_grad(rep["groups"], pre["W_skip_"], pre["W1_"], thr, M))
                    bad = not (np.allclose(mdl.W_skip_, eW, rtol=1e-9, atol=1e-12) and np.allclose(mdl.W1_, e1, rtol=1e-9, atol=1e-12))
                else:
                    e = pg.linear_prox_grad(pre["W_"], thr) if rep.get("groups") is None else pg.group_linear_prox_grad(rep["groups"], pre["W_"], thr)
                    bad = not np.allclose(mdl.W_, e, rtol=1e-9, atol=1e-12)
                if rep.get("inplace"):
                    bad = [id(w) for w in mdl._get_weights()] != [id(w) for w in ws]
                if rep.get("hier") and cm.BASE[family] == "smlp":
                    bad = bad or any((not np.any(mdl.W_skip_[j] != 0)) and np.any(mdl.W1_[j] != 0) for j in range(mdl.W_skip_.shape[0]))
                if rep.get("whole") is not None:
                    # group wholeness on the REAL post-state: the rows of the group that are zero now but were not before,
                    # while some other row of the group survives
                    nm = _sel_attr(family)
                    post, pr = getattr(mdl, nm), pre[nm]
                    g = rep["whole"]
                    zero_now = [j for j in g if not np.any(post[j] != 0)]
                    bad = 0 < len(zero_now) < len(g) and any(np.any(pr[j] != 0) for j in zero_now)
            if verbose:
                print(f"alpha={alpha} lr={lr} M={M} groups={rep.get('groups')} -> {'MISMATCH with the proximal step' if bad else 'ok'}")
            if bad:
                return True
    return False


def jobs(tier):
    q = tier == "quick"
    out = []
    for fam, sh in [("SparseLinearModel", (1, 2, 2)), ("SparseLinearModel", (1, 3, 1)), ("SparseMLPModel", (1, 2, 1, 2))] + ([] if q else [("SparseMLPModel", (1, 3, 1, 1)), ("SparseLinearMI", (1, 2, 2))]):
        out.append({"name": f"select/{fam}/{cm.shape_str(sh)}", "target": "checks.c06:job_select", "kwargs": dict(family=fam, shape=sh), "timeout": 280 if q else 1800})
    for fam, sh in [("SparseLinearModel", (2, 2, 2)), ("SparseMLPModel", (2, 2, 1, 2)), ("SparseMLPMMD", (1, 2, 2, 2))] + ([] if q else [("SparseLinearMMD", (2, 3, 2)), ("SparseMLPModel", (2, 3, 2, 2))]):
        out.append({"name": f"inert/{fam}/{cm.shape_str(sh)}", "target": "checks.c06:job_inert", "kwargs": dict(family=fam, shape=sh), "timeout": 280 if q else 1800})
    wir = [("SparseLinearModel", (1, 2, 1), None), ("SparseLinearModel", (1, 2, 2), None), ("SparseLinearModel", (1, 2, 1), [[0, 1]]), ("SparseLinearModel", (1, 3, 1), [[0, 2], [1]]),
           ("SparseLinearModel", (1, 3, 1), [[1, 2], [0]]),
           ("SparseMLPModel", (1, 1, 1, 1), None), ("SparseMLPModel", (1, 2, 1, 1), None), ("SparseMLPModel", (1, 1, 2, 1), None), ("SparseMLPModel", (1, 2, 1, 1), [[0], [1]])]
    if not q:
        wir += [("SparseLinearModel", (1, 3, 2), [[0], [1, 2]]), ("SparseMLPModel", (1, 2, 1, 1), [[0, 1]]), ("SparseMLPModel", (1, 1, 1, 2), None), ("SparseLinearMI", (1, 2, 2), [[0, 1]])]
    for fam, sh, g in wir:
        out.append({"name": f"wiring/{fam}/{cm.shape_str(sh)}/{g}", "target": "checks.c06:job_wiring", "kwargs": dict(family=fam, shape=sh, groups=g), "timeout": 280 if q else 2400})
    # a feature discarded before the step, then moved by the optimiser: static and dynamic mode
    for fam, sh in [("SparseMLPModel", (1, 2, 1, 1)), ("SparseLinearModel", (1, 2, 2))] + ([] if q else [("SparseMLPModel", (1, 2, 1, 2)), ("SparseMLPModel", (1, 2, 2, 1))]):
        for dyn in (False, True):
            out.append({"name": f"wiring/{fam}/{cm.shape_str(sh)}/revive/{'dynamic' if dyn else 'static'}", "target": "checks.c06:job_wiring",
                        "kwargs": dict(family=fam, shape=sh, revive=[1], dynamic=dyn), "timeout": 280 if q else 2400})
    for d in ([2, 3] if q else [2, 3, 4]):
        out.append({"name": f"check_groups/d{d}", "target": "checks.c06:job_check_groups", "kwargs": dict(d=d), "timeout": 120})
    return out


def run(tier, seed, only=None, nproc=None):
    t0 = time.time()
    js = [j for j in jobs(tier) if not only or only in j["name"]]
    pairs = runner.run_jobs(js, nproc=nproc, seed=seed)
    return runner.finish(
        PROP, tier, seed, pairs, t0,
        assumptions=["weights are an ARBITRARY symbolic state (stronger than 'reachable by fit/path'); alpha >= 0, M >= 0, learning rate > 0 symbolic",
                     "the literal 'all selected or all discarded' for groups additionally needs 'no row of a surviving group is exactly zero', "
                     "which an arbitrary pre-state violates but no random initialisation reaches: checked in the whole-group-thresholding form",
                     "exact reals; sklearn softmax replaced by its exp contract"],
        bounds={"tier": tier, "jobs": [j["name"] for j in js]})
