"""C04 -- fit succeeds on every valid configuration and yields a coherent model   (claimed in part, see DESIGN)

 grid    : the REAL ``fit`` of every gradient-trained family runs symbolically for one or two epochs (stub environment of
           checks.common_models: identity validation, symbolic RNG draws, recording optimiser that re-randomises the parameters,
           uninterpreted kernels; symbolic data) over  family x solver x batch_size in {1, n-1, n, n+1, None} x GEMINI kind.
           ANY exception on a feasible path is a counterexample to "fit succeeds".  After fit, on every path (final arg-max forked):
           labels_ has n entries in [0, n_clusters); predict_proba rows are positive and sum to 1 (solver / normal form);
           predict == arg-max of predict_proba == labels_ on the training array; score hands the GEMINI exactly predict_proba(X)
           and the affinity computed for X (and returns its value); n_iter_ == max_iter; optimiser_ is the class named by solver.
 witness : the PUBLIC fit of all 18 estimators on a small concrete dataset (real numerics, real validation): the same coherence
           conditions, with the GEMINI score recomputed from the definition (vacuity guard for the stubbed part).
Outside: termination/coherence beyond the shapes; convergence quality; scikit-learn's validation itself.
"""
from __future__ import annotations

import itertools
import time
import warnings

from fractions import Fraction

import numpy as np

from symx import core, harness, loader, runner
from symx.core import to_rat, K
from symx.explore import Explorer, PathError
from . import common_models as cm
from . import common_gemini as cg

PROP = "C04"


def _new():
    return {"paths": 0, "queries": 0, "obligations": [], "violations": [], "validated": 0, "witnesses": 0, "samples": []}


def _keys(a):
    return [to_rat(x).key() for x in np.asarray(a, dtype=object).reshape(-1)]


def job_grid(family, shape, gemini, batch_size, solver, max_iter=1, gemini_stub=True):
    loader.install()
    res = _new()
    box = {}
    dm = cm.dims(family, shape)
    n, Kc = dm["n"], dm["K"]

    def setup():
        core.CTX.merge_sign = True
        core.CTX.strict = True       # arg-max ties excluded (they are measure-zero and label either way)
        env = cm.FitEnv(family, shape, gemini=gemini, batch_size=batch_size, solver=solver, max_iter=max_iter, stop_after_training=False, gemini_stub=gemini_stub)
        box["env"] = env
        return env

    def body(env):
        env.run_fit()
        mdl = env.mdl
        proba = mdl.predict_proba(env.X)
        pred = [int(v) for v in np.asarray(mdl.predict(env.X)).reshape(-1)]
        n_calls = len(env.gem_calls)
        sc = mdl.score(env.X, env.y)
        return proba, pred, sc, n_calls

    ex = Explorer(max_paths=600)
    tagbase = f"grid/{family}/{cm.shape_str(shape)}/{gemini}/bs{batch_size}/{solver}/it{max_iter}"
    seen = set()
    for out, pc, trace in ex.run(body, setup):
        res["paths"] += 1
        tag = f"{tagbase}/path{res['paths']}"
        env = box["env"]
        if isinstance(out, PathError):
            v, model = harness.reachable(pc, timeout_s=8.0)
            res["queries"] += 1
            if v == "unsat":
                continue
            o = {"name": tag + "/fit, predict_proba, predict and score complete without raising", "verdict": "sat", "how": repr(out)[:240]}
            res["obligations"].append(o)
            sig = f"{PROP}:{family}:raises-{type(out.exc).__name__}"
            rep = {"kind": "grid", "family": family, "shape": list(shape), "gemini": gemini, "batch_size": batch_size, "solver": solver, "max_iter": max_iter}
            if sig not in seen:
                got = replay(rep)
                if got:
                    seen.add(sig)
                    res["violations"].append({"signature": sig, "what": f"{family}(gemini={gemini}, batch_size={batch_size}, solver={solver}).fit raises {type(out.exc).__name__}: {str(out.exc)[:120]}", "replay": rep})
                else:
                    o["verdict"] = "inconclusive"
            continue
        proba, pred, sc, n_calls = out
        mdl = env.mdl
        proba = np.asarray(proba, dtype=object)
        checks = []
        labels = [int(v) for v in np.asarray(mdl.labels_).reshape(-1)]
        checks.append(("labels_ has one entry per sample in [0, n_clusters)", len(labels) == n and all(0 <= l < Kc for l in labels), "labels"))
        okp = proba.shape == (n, Kc) and all(core.compare0(to_rat(x), ">") is True for x in proba.reshape(-1))
        if okp:
            for i in range(n):
                okp = okp and core.expand(core.add_many([to_rat(x) for x in proba[i]]) - 1).c == 0
        checks.append(("predict_proba rows are positive and sum to one", okp, "proba-rows"))
        am = []
        for i in range(n):
            best = 0
            for k in range(1, Kc):
                if bool(to_rat(proba[i, k]) > to_rat(proba[i, best])):
                    best = k
            am.append(best)
        checks.append(("predict is the arg-max of predict_proba", pred == am, "predict-argmax"))
        checks.append(("predict on the training data reproduces labels_", pred == labels, "predict-labels"))
        # score: the GEMINI receives predict_proba(X) and the affinity of X, and its value is returned
        last = env.gem_calls[-1] if len(env.gem_calls) > n_calls else None
        oks = last is not None and _keys(last["y_pred"]) == _keys(proba) and not last["return_grad"]
        if oks:
            A = None
            for rec in getattr(env, "affinity_log", []):
                if rec["Y"] is None:
                    A = rec["value"]
            if cm.BASE[family] == "kernelrim" or gemini == "mi":
                oks = last["affinity"] is None
            else:
                oks = A is not None and last["affinity"] is not None and _keys(last["affinity"]) == _keys(A)
            if oks and gemini_stub:
                oks = to_rat(sc).key() == core.var(f"score{len(env.gem_calls)}").key()
        checks.append(("score hands the GEMINI predict_proba(X) and the affinity of X and returns its value", oks, "score"))
        checks.append(("n_iter_ == max_iter", getattr(mdl, "n_iter_", None) == max_iter, "n_iter"))
        want_opt = "RecSGD" if solver == "sgd" else "RecAdam"
        checks.append(("optimiser_ is the class named by solver", type(getattr(mdl, "optimiser_", None)).__name__ == want_opt, "optimiser"))
        for nm, ok, short in checks:
            res["obligations"].append({"name": f"{tag}/{nm}", "verdict": "unsat" if ok else "sat", "how": "term-identity / path-evaluation"})
            sig = f"{PROP}:{family}:{short}"
            if not ok and sig not in seen:
                rep = {"kind": "grid", "family": family, "shape": list(shape), "gemini": gemini, "batch_size": batch_size, "solver": solver, "max_iter": max_iter, "expect": short}
                got = replay(rep)
                if got:
                    seen.add(sig)
                    res["violations"].append({"signature": sig, "what": f"{family}(gemini={gemini}, batch_size={batch_size}, solver={solver}): {nm} -- violated", "replay": rep})
                else:
                    res["obligations"][-1]["verdict"] = "inconclusive"
        if len(res["samples"]) < 1:
            res["samples"].append({"config": tagbase, "steps": len(env.steps), "labels_": labels})
    if ex.truncated:
        res["obligations"].append({"name": tagbase + "/exploration", "verdict": "unknown", "how": "path budget exhausted"})
    return res


ALL18 = ["LinearModel", "LinearMMD", "LinearWasserstein", "RIM", "KernelRIM", "MLPModel", "MLPMMD", "MLPWasserstein", "SparseLinearModel", "SparseLinearMMD",
         "SparseLinearMI", "SparseMLPModel", "SparseMLPMMD", "CategoricalModel", "CategoricalMMD", "CategoricalWasserstein", "Douglas", "Kauri"]


def concrete_coherence(name, kw, X, y=None, verbose=False):
    """public fit on concrete data + the coherence conditions; returns list of (check, ok)"""
    if name == "Kauri":
        cls = loader.real("tree.kauri").Kauri
    else:
        cls = cm.get_class(name, symbolic=False)[0]
    out = []
    est = cls(**kw)
    try:
        with warnings.catch_warnings():
            warnings.simplefilter("ignore")
            est.fit(X, y)
    except Exception as e:
        if verbose:
            print(name, kw, "fit raised", type(e).__name__, e)
        return [(f"fit raises {type(e).__name__}", False)]
    n = len(X)
    labels = np.asarray(est.labels_)
    if name == "Kauri":
        Kc = kw.get("max_clusters", 3)
        out.append(("labels_ in [0, max_clusters), one per sample", labels.shape == (n,) and labels.min() >= 0 and labels.max() < Kc))
        out.append(("a tree is stored and routing reproduces labels_", hasattr(est, "tree_") and np.array_equal(est.predict(X), labels)))
        return out
    Kc = kw.get("n_clusters", 3)
    out.append(("labels_ in [0, n_clusters), one per sample", labels.shape == (n,) and labels.min() >= 0 and labels.max() < Kc))
    P = est.predict_proba(X)
    out.append(("predict_proba rows are probability vectors of length n_clusters", P.shape == (n, Kc) and np.all(P >= 0) and np.allclose(P.sum(1), 1)))
    pred = est.predict(X)
    out.append(("predict == arg-max predict_proba == labels_", np.array_equal(pred, P.argmax(1)) and np.array_equal(pred, labels)))
    gem = est.get_gemini()
    A = gem.compute_affinity(X, y)
    kind = {"KLGEMINI": "kl", "MI": "kl", "TVGEMINI": "tv", "HellingerGEMINI": "h2", "ChiSquareGEMINI": "chi2", "MMDGEMINI": "mmd", "WassersteinGEMINI": "w"}[type(gem).__name__]
    ref = cg.float_oracle(kind, gem.ovo, np.clip(P, gem.epsilon, 1 - gem.epsilon), A)
    sc = est.score(X, y)
    out.append(("score == GEMINI (from its definition) of predict_proba on the data", abs(sc - ref) <= 1e-6 * max(1.0, abs(ref))))
    out.append(("n_iter_ == max_iter", est.n_iter_ == kw.get("max_iter", None) or est.n_iter_ == est.max_iter))
    want = "SGDOptimizer" if kw.get("solver", est.solver) == "sgd" else "AdamOptimizer"
    out.append(("optimiser_ matches solver", type(est.optimiser_).__name__ == want))
    return out


def job_witness(name):
    res = _new()
    rng = np.random.RandomState(0)
    X = np.vstack([rng.normal(size=(4, 2)) + 3, rng.normal(size=(4, 2)) - 3])
    configs = []
    if name == "Kauri":
        configs = [dict(max_clusters=2), dict(max_clusters=3, max_depth=2, min_samples_leaf=2, min_samples_split=4), dict(max_clusters=4, max_leaves=3, max_features=1, random_state=0),
                   dict(max_clusters=2, max_features=2), dict(max_clusters=2, max_features=3), dict(max_clusters=3, max_features=9, random_state=1)]
    else:
        base = dict(n_clusters=2, max_iter=2, random_state=0)
        for solver in ("adam", "sgd"):
            for bs in ((None,) if "Categorical" in name else (None, 1, 3, 8, 9)):
                kw = dict(base, solver=solver)
                if "Categorical" not in name:
                    kw["batch_size"] = bs
                configs.append(kw)
        if name in ("LinearModel", "MLPModel", "SparseLinearModel", "SparseMLPModel", "CategoricalModel", "Douglas"):
            for g in ("mi", "kl_ovo", "tv_ova", "hellinger_ovo", "chi2_ova", "mmd_ovo", "wasserstein_ovo"):
                configs.append(dict(base, gemini=g))
        if name in ("LinearMMD", "MLPMMD", "SparseLinearMMD", "SparseMLPMMD", "CategoricalMMD"):
            configs += [dict(base, ovo=True, kernel="rbf", kernel_params={"gamma": 0.5}), dict(base, n_clusters=3)]
        if name in ("LinearWasserstein", "MLPWasserstein", "CategoricalWasserstein"):
            configs += [dict(base, ovo=True, metric="manhattan"), dict(base, n_clusters=3)]
        if name == "Douglas":
            configs += [dict(base, n_cuts=2, temperature=0.5), dict(base, feature_mask=np.array([True, False]))]
        if name.startswith("Sparse"):
            configs += [dict(base, groups=[[0, 1]]), dict(base, alpha=1.0), dict(base, dynamic=True) if name != "SparseLinearMI" else dict(base, alpha=0.0)]
        if name in ("RIM", "KernelRIM"):
            configs += [dict(base, reg=0.0), dict(base, reg=2.0, batch_size=3)]
        if name == "KernelRIM":
            configs += [dict(base, base_kernel="rbf", base_kernel_params={"gamma": 0.3}, batch_size=5)]
    bad_cfg = None
    for kw in configs:
        checks = concrete_coherence(name, kw, X)
        res["paths"] += 1
        res["witnesses"] += 1
        for nm, ok in checks:
            res["obligations"].append({"name": f"witness/{name}/{_kwstr(kw)}/{nm}", "verdict": "unsat" if ok else "sat", "how": "concrete public API"})
            if not ok and bad_cfg is None:
                bad_cfg = (kw, nm)
    if bad_cfg is not None:
        kw, nm = bad_cfg
        res["violations"].append({"signature": f"{PROP}:{name}:witness:{nm.split()[0]}", "what": f"{name}({_kwstr(kw)}): {nm} -- violated on a concrete dataset",
                                  "replay": {"kind": "witness", "name": name, "kw": {k: (v.tolist() if isinstance(v, np.ndarray) else v) for k, v in kw.items()}}})
    res["samples"].append({"estimator": name, "configurations": len(configs)})
    return res


def _kwstr(kw):
    return ",".join(f"{k}={v if not isinstance(v, np.ndarray) else v.tolist()}" for k, v in sorted(kw.items()) if k not in ("random_state",))


def job_lr_sequence():
    """several estimators fitted one after the other in ONE process, each with its own learning rate and solver: every optimiser must be
    built with the learning rate of ITS estimator (no value captured from an earlier fit)"""
    loader.install()
    res = _new()
    seq = [("LinearModel", (2, 1, 2), "adam", Fraction(1, 8)), ("Douglas", (2, 1, 1, 2), "sgd", Fraction(3, 4)), ("LinearModel", (2, 1, 2), "sgd", Fraction(1, 32)),
           ("MLPModel", (2, 1, 1, 2), "adam", Fraction(5, 16))]

    def body(_):
        got = []
        for fam, sh, solver, lr in seq:
            env = cm.FitEnv(fam, sh, gemini="mi", batch_size=None, solver=solver, max_iter=1, stop_after_training=False, gemini_stub=True, final_infer="concrete",
                            hyper={"learning_rate": float(lr)})
            env.run_fit()
            opt = env.mdl.optimiser_
            got.append((fam, solver, float(lr), type(opt).__name__, getattr(opt, "learning_rate_init", None)))
        return got

    ex = Explorer(max_paths=4)
    for out, pc, trace in ex.run(body, lambda: None):
        res["paths"] += 1
        if isinstance(out, PathError):
            res["obligations"].append({"name": "lr-sequence/path-error", "verdict": "inconclusive", "how": repr(out)[:300]})
            break
        for i, (fam, solver, lr, cls_name, lr_got) in enumerate(out):
            ok = lr_got is not None and abs(float(lr_got) - lr) < 1e-15 and cls_name == ("RecSGD" if solver == "sgd" else "RecAdam")
            res["obligations"].append({"name": f"lr-sequence/fit {i + 1} ({fam}, {solver}, learning_rate={lr}): optimiser built with this estimator's rate and class", "verdict": "unsat" if ok else "sat",
                                       "how": "path-evaluation", "got": [cls_name, None if lr_got is None else float(lr_got)]})
            if not ok and not res["violations"]:
                rep_ = {"kind": "lr-sequence"}
                if replay(rep_):
                    res["violations"].append({"signature": f"{PROP}:optimiser:learning-rate", "what": f"fit {i + 1} of a sequence ({fam}, learning_rate={lr}) builds its optimiser with the rate {lr_got} of an earlier fit", "replay": rep_})
                else:
                    res["obligations"][-1]["verdict"] = "inconclusive"
        break
    res["samples"].append({"sequence": [(f, s_, float(l)) for f, _, s_, l in seq]})
    return res


def replay(rep, verbose=False):
    rng = np.random.RandomState(1)
    if rep["kind"] == "lr-sequence":
        lin = loader.real("linear._linear_geminis")
        dg = loader.real("tree.douglas")
        X = rng.normal(size=(12, 2))
        bad = False
        for cls, solver, lr in [(lin.LinearMMD, "adam", 0.125), (dg.Douglas, "sgd", 0.75), (lin.LinearModel, "sgd", 0.03125), (lin.RIM, "adam", 0.3125)]:
            m = cls(n_clusters=2, max_iter=2, solver=solver, learning_rate=lr, random_state=0).fit(X)
            got = getattr(m.optimiser_, "learning_rate_init", None)
            if verbose:
                print(cls.__name__, solver, "learning_rate", lr, "-> optimiser_.learning_rate_init", got, type(m.optimiser_).__name__)
            bad = bad or got is None or abs(got - lr) > 1e-15 or type(m.optimiser_).__name__ != ("SGDOptimizer" if solver == "sgd" else "AdamOptimizer")
        return bad
    if rep["kind"] == "witness":
        kw = dict(rep["kw"])
        if "feature_mask" in kw:
            kw["feature_mask"] = np.array(kw["feature_mask"])
        X = np.vstack([np.random.RandomState(0).normal(size=(4, 2)) + 3, np.random.RandomState(0).normal(size=(4, 2)) - 3])
        X = np.vstack([rng.normal(size=(4, 2)) + 3, rng.normal(size=(4, 2)) - 3]) if False else np.vstack([np.random.RandomState(0).normal(size=(4, 2)) + 3, np.random.RandomState(0).normal(size=(8, 2))[4:] - 3])
        return any(not ok for _, ok in concrete_coherence(rep["name"], kw, X, verbose=verbose))
    family, shape = rep["family"], tuple(rep["shape"])
    dm = cm.dims(family, shape)
    n = max(dm["n"], dm["K"])
    d = max(dm["d"], 1) if cm.BASE[family] != "kernelrim" else 2
    kw = dict(n_clusters=dm["K"], max_iter=rep["max_iter"], solver=rep["solver"], random_state=0)
    if cm.BASE[family] != "cat":
        kw["batch_size"] = rep["batch_size"]
    if cm.BASE[family] in ("mlp", "smlp"):
        kw["n_hidden_dim"] = dm["h"]
    if cm.BASE[family] == "douglas":
        kw["n_cuts"] = dm["cuts"]
    if family not in ("RIM", "KernelRIM"):
        kw["gemini"] = rep["gemini"]
    bad = False
    for trial in range(5):
        # small and large steps: an incoherence that lives in the LAST update only shows when that update moves an arg-max
        X = rng.normal(size=(dm["n"] + trial + (6 if trial >= 3 else 0), d)) * 2
        kw["learning_rate"] = [1e-3, 0.5, 5.0, 0.5, 5.0][trial]
        checks = concrete_coherence(family, kw, X, verbose=verbose)
        for nm, ok in checks:
            if not ok:
                if verbose:
                    print(family, kw, "->", nm, "FAILS")
                bad = True
    return bad


def jobs(tier):
    q = tier == "quick"
    out = []
    for name in ALL18:
        out.append({"name": f"witness/{name}", "target": "checks.c04:job_witness", "kwargs": dict(name=name), "timeout": 280 if q else 900})
    fams = [("LinearModel", (3, 1, 2)), ("RIM", (3, 1, 2)), ("KernelRIM", (3, 2)), ("MLPModel", (2, 1, 1, 2) if q else (3, 1, 1, 2)), ("SparseLinearModel", (3, 1, 2)),
            ("SparseMLPModel", (2, 1, 1, 2)), ("CategoricalModel", (3, 2)), ("Douglas", (3, 1, 1, 2))]
    for fam, sh in fams:
        n = cm.dims(fam, sh)["n"]
        bss = [None] if cm.BASE[fam] == "cat" else [1, n - 1, n, n + 1, None]
        if cm.BASE[fam] in ("mlp", "smlp") and q:
            bss = [1, None] if cm.BASE[fam] == "mlp" else [None]      # ReLU x prox x arg-max forks: the full batch grid is in the thorough tier
        for bs in bss:
            for solver in (["adam"] if q and bs not in (None, 1) else ["adam", "sgd"]):
                for gem in (["mi"] if fam in ("RIM", "KernelRIM") else ["mi", "mmd_ova"] if q else ["mi", "mmd_ova", "wasserstein_ova"]):
                    out.append({"name": f"grid/{fam}/{gem}/bs{bs}/{solver}", "target": "checks.c04:job_grid",
                                "kwargs": dict(family=fam, shape=sh, gemini=gem, batch_size=bs, solver=solver, max_iter=1), "timeout": 280 if q else 1800})
    out.append({"name": "lr-sequence", "target": "checks.c04:job_lr_sequence", "kwargs": {}, "timeout": 280})
    out.append({"name": "grid/LinearModel/mi/bs2/adam/it2", "target": "checks.c04:job_grid",
                "kwargs": dict(family="LinearModel", shape=(3, 1, 2), gemini="mi", batch_size=2, solver="adam", max_iter=2), "timeout": 280 if q else 1800})
    out.append({"name": "grid/LinearModel/real-gemini/mi", "target": "checks.c04:job_grid",
                "kwargs": dict(family="LinearModel", shape=(2, 1, 2), gemini="mi", batch_size=None, solver="adam", max_iter=1, gemini_stub=False), "timeout": 280 if q else 1800})
    return out


def run(tier, seed, only=None, nproc=None):
    t0 = time.time()
    js = [j for j in jobs(tier) if not only or only in j["name"]]
    pairs = runner.run_jobs(js, nproc=nproc, seed=seed)
    return runner.finish(
        PROP, tier, seed, pairs, t0,
        assumptions=["grid: one epoch (two in one job), shapes n=3, K=2; symbolic data; stub environment; GEMINI values stubbed except where stated (C01/C02 cover the objectives)",
                     "witness: small concrete dataset through the public API with real numerics (not solver-decided; it guards the stubbed part against vacuity)",
                     "termination / coherence for shapes beyond the bound and scikit-learn's own validation are outside"],
        bounds={"tier": tier, "jobs": len(js), "batch sizes": "1, n-1, n, n+1, None", "estimators (witness)": 18})
