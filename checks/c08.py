"""C08 -- KAURI gains are real objective increases and the chosen split is the best one.

The split search of gemclus/tree/_utils.pyx (translated mechanically to Python from the CURRENT .pyx text; the shipped
.so cannot be rebuilt here and is only used to validate the translator) runs on a FULLY SYMBOLIC symmetric kernel
(positive semi-definiteness not assumed) and an enumerated discrete tree state: samples in weakly increasing feature
order with every tie pattern, every partition of the samples into leaves, every assignment of leaves to clusters,
K_max in {c, c+1, c+2}, min_samples_leaf in {1, 2}.  Every `>`/`>=` of the running best is a decision (QF_LRA).

Oracle (from first principles, J = sum_k sigma(C_k x C_k)/|C_k|): every admissible alternative -- explorable leaf,
feature, threshold position between distinct values with both sides >= min_leaf, and star / double-star / switch /
reallocation assignment permitted by K_max -- with its exact increase J(after) - J(before).
Assertions per path: the returned gain equals the increase of the returned split, and no alternative has a larger one.
"""
from __future__ import annotations

import itertools
import time
from fractions import Fraction

import numpy as np
import z3

from symx import core, harness, loader, runner, solve
from symx.core import K, to_rat
from symx.explore import Explorer, PathError

PROP = "C08"


# ----------------------------------------------------------------------------------------------------------------------
# discrete states


def set_partitions(items):
    items = list(items)
    if not items:
        yield []
        return
    first, rest = items[0], items[1:]
    for p in set_partitions(rest):
        for i in range(len(p)):
            yield p[:i] + [[first] + p[i]] + p[i + 1:]
        yield [[first]] + p


def tie_patterns(n):
    """feature values of samples 0..n-1 in weakly increasing order: every pattern of equalities between neighbours"""
    for bits in itertools.product([0, 1], repeat=n - 1):
        vals = [0.0]
        for b in bits:
            vals.append(vals[-1] + (1.0 if b else 0.0))
        yield vals


def states(n, d=1, second_orders=None):
    """yield dict(X, leaves=[[samples]], clusters=[[leaf ids]])"""
    for vals in tie_patterns(n):
        cols = [vals]
        extra = [None]
        if d == 2:
            extra = second_orders or list(itertools.permutations(range(n)))
        for perm in extra:
            X = np.array([vals] + ([[float(perm[i]) for i in range(n)]] if perm is not None else [])).T
            for leaves in set_partitions(range(n)):
                leaves = sorted([sorted(l) for l in leaves])
                for clusters in set_partitions(range(len(leaves))):
                    clusters = sorted([sorted(c) for c in clusters])
                    yield {"X": X, "leaves": leaves, "clusters": clusters}


def build_arrays(st, K_max, max_leaves=None):
    n = st["X"].shape[0]
    L = len(st["leaves"])
    max_leaves = max_leaves or n
    Z = np.zeros((max_leaves, n), dtype=np.int64)
    for j, leaf in enumerate(st["leaves"]):
        Z[j, leaf] = 1
    Y = np.zeros((K_max, max_leaves), dtype=np.int64)
    for k, cl in enumerate(st["clusters"]):
        Y[k, cl] = 1
    return Y, Z, L, len(st["clusters"])


# ----------------------------------------------------------------------------------------------------------------------
# oracle


def stock(kernel, A, B=None):
    B = A if B is None else B
    t = 0
    for i in A:
        for j in B:
            t = t + kernel[i, j]
    return t


def J_of(kernel, clusters):
    t = 0
    for c in clusters:
        if c:
            t = t + stock(kernel, c) * Fraction(1, len(c)) if not isinstance(kernel[0, 0], float) else t + stock(kernel, c) / len(c)
    return t


def alternatives(st, K_max, min_leaf, explore, features):
    """all admissible (leaf, feature, threshold, L, R, kind, tl, tr)"""
    X = st["X"]
    c = len(st["clusters"])
    leaf_cluster = {}
    for k, cl in enumerate(st["clusters"]):
        for j in cl:
            leaf_cluster[j] = k
    out = []
    for j in explore:
        leaf = st["leaves"][j]
        k = leaf_cluster[j]
        csize = sum(len(st["leaves"][l]) for l in st["clusters"][k])
        whole = csize == len(leaf)
        for f in features:
            vals = sorted(set(X[i, f] for i in leaf))
            for t in vals[:-1]:
                Lset = [i for i in leaf if X[i, f] <= t]
                Rset = [i for i in leaf if X[i, f] > t]
                if len(Lset) < min_leaf or len(Rset) < min_leaf:
                    continue
                if c < K_max:
                    out.append((j, f, t, Lset, Rset, "star", c, k))
                    out.append((j, f, t, Lset, Rset, "star", k, c))
                if c + 2 <= K_max and not whole:
                    out.append((j, f, t, Lset, Rset, "double_star", c, c + 1))
                if c >= 2:
                    for kp in range(c):
                        if kp != k:
                            out.append((j, f, t, Lset, Rset, "switch", kp, k))
                            out.append((j, f, t, Lset, Rset, "switch", k, kp))
                if c >= 3 and not whole:
                    for k1 in range(c):
                        for k2 in range(c):
                            if k1 != k and k2 != k and k1 != k2:
                                out.append((j, f, t, Lset, Rset, "reallocation", k1, k2))
    return out


def clusters_as_samples(st):
    return [sorted(i for l in cl for i in st["leaves"][l]) for cl in st["clusters"]]


def gain_of(kernel, st, alt):
    j, f, t, Lset, Rset, kind, tl, tr = alt
    before = clusters_as_samples(st)
    k = next(k for k, cl in enumerate(st["clusters"]) if j in cl)
    after = [list(c) for c in before] + [[], []]
    leaf = st["leaves"][j]
    after[k] = [i for i in after[k] if i not in leaf]
    after[tl] = sorted(after[tl] + Lset)
    after[tr] = sorted(after[tr] + Rset)
    return J_of(kernel, after) - J_of(kernel, before)


def kind_of(st, split_leaf, tl, tr):
    c = len(st["clusters"])
    k = next(k for k, cl in enumerate(st["clusters"]) if split_leaf in cl)
    if tl >= c and tr >= c:
        return "double_star"
    if tl >= c or tr >= c:
        return "star" if (tl == k or tr == k) else "star+move"
    if tl == k or tr == k:
        return "switch" if tl != tr else "noop"
    return "reallocation"


# ----------------------------------------------------------------------------------------------------------------------


def job(n, d, state_slice, K_offsets=(0, 1, 2), min_leafs=(1, 2), timeout_q=10.0, max_paths_per_state=4000, subset_explore=False):
    loader.install()
    res = {"paths": 0, "queries": 0, "obligations": [], "violations": [], "validated": 0, "witnesses": 0, "samples": []}
    U = loader.load("tree._utils")
    all_states = list(states(n, d))
    lo, hi, step = state_slice
    chosen = all_states[lo:hi:step]
    res["states"] = 0
    seen_sigs = set()
    for sidx, st in enumerate(chosen):
        c = len(st["clusters"])
        L = len(st["leaves"])
        for koff in K_offsets:
            K_max = c + koff
            for min_leaf in min_leafs:
                explores = [list(range(L))]
                if subset_explore and L >= 2:
                    explores.append([L - 1])
                for explore in explores:
                    res["states"] += 1
                    _one_state(res, U, st, n, d, K_max, min_leaf, explore, timeout_q, max_paths_per_state, seen_sigs,
                               tag=f"n{n}d{d}/s{lo + sidx * step}/K{K_max}/m{min_leaf}/e{len(explore)}")
    return res


def job_explicit(states_list, K_offsets=(0,), min_leafs=(1,), timeout_q=10.0, max_paths_per_state=20000):
    """explicitly listed states (e.g. the smallest ones in which the second-best bookkeeping of the reallocation branch matters)"""
    loader.install()
    res = {"paths": 0, "queries": 0, "obligations": [], "violations": [], "validated": 0, "witnesses": 0, "samples": [], "states": 0}
    U = loader.load("tree._utils")
    seen = set()
    for si, sj in enumerate(states_list):
        st = {"X": np.array(sj["X"], dtype=float), "leaves": sj["leaves"], "clusters": sj["clusters"]}
        n, d = st["X"].shape
        c = len(st["clusters"])
        for koff in K_offsets:
            for ml in min_leafs:
                res["states"] += 1
                _one_state(res, U, st, n, d, c + koff, ml, sj.get("explore", list(range(len(st["leaves"])))), timeout_q, max_paths_per_state, seen,
                           tag=f"explicit{si}/n{n}/K{c + koff}/m{ml}")
    return res


def realloc_states(n=6):
    """four clusters, one of them made of a two-sample leaf and a one-sample leaf: reallocation of both halves possible"""
    out = []
    X = [[float(i)] for i in range(n)]
    for pair in [(0, 1), (2, 3), (4, 5), (0, 5)]:
        rest = [i for i in range(n) if i not in pair]
        leaves = [list(pair)] + [[i] for i in rest]
        # leaf 0 (the pair) shares its cluster with leaf 1; leaves 2,3,4 are their own clusters
        out.append({"X": X, "leaves": leaves, "clusters": [[0, 1], [2], [3], [4]], "explore": [0]})
    return out


def _one_state(res, U, st, n, d, K_max, min_leaf, explore, timeout_q, max_paths, seen_sigs, tag):
    Y, Z, L, c = build_arrays(st, K_max)
    features = list(range(d))
    alts = alternatives(st, K_max, min_leaf, explore, features)
    box = {}

    def setup():
        kernel = harness.symmetric_matrix(n, "k")
        box["kernel"] = kernel
        return kernel

    def body(kernel):
        bs = U.find_best_split(kernel, st["X"], np.array(explore, dtype=np.int64), Y.copy(), Z.copy(), c, K_max, L, min_leaf,
                               np.array(features, dtype=np.intp))
        return bs

    ex = Explorer(max_paths=max_paths, max_depth=600)
    npaths = 0
    for out, pc, trace in ex.run(body, setup):
        npaths += 1
        res["paths"] += 1
        ptag = f"{tag}/path{npaths}"
        if isinstance(out, PathError):
            res["obligations"].append({"name": ptag + "/path-error", "verdict": "inconclusive", "how": repr(out)[:300]})
            continue
        kernel = box["kernel"]
        bs = out
        g = to_rat(bs.gain)
        gains = [(a, to_rat(gain_of(kernel, st, a))) for a in alts]
        chose = int(bs.leaf) != -1
        # (i) the claimed gain is the real increase of the returned split
        if chose:
            thr = float(bs.threshold) if not isinstance(bs.threshold, core.Rat) else float(bs.threshold.c)
            match = [ga for (a, ga) in gains if a[0] == int(bs.leaf) and a[1] == int(bs.feature) and abs(a[2] - thr) < 1e-12
                     and a[6] == int(bs.left_target) and a[7] == int(bs.right_target)]
            kind = kind_of(st, int(bs.leaf), int(bs.left_target), int(bs.right_target))
            if not match:
                # the returned split is not an admissible alternative at all (or not of a documented kind)
                v, model = harness.reachable(pc, timeout_s=timeout_q)
                res["queries"] += 1
                o = {"name": ptag + "/returned split is admissible", "verdict": "sat" if v == "sat" else ("unsat" if v == "unsat" else "unknown"), "how": f"kind={kind}"}
                res["obligations"].append(o)
                if v == "sat":
                    _violation(res, seen_sigs, f"{PROP}:inadmissible:{kind}", f"find_best_split returns an inadmissible split ({kind})", st, K_max, min_leaf, explore, model, n, d)
            else:
                o = harness.prove_zero(g - match[0], pc, timeout_s=timeout_q, name=ptag + f"/claimed gain == J(after)-J(before) [{kind}]")
                if o.get("how", "").startswith("solver"):
                    res["queries"] += 1
                res["obligations"].append({k: v for k, v in o.items() if k != "model"})
                if o["verdict"] == "sat":
                    if not _violation(res, seen_sigs, f"{PROP}:gain-mismatch:{kind}", f"claimed gain of a {kind} split differs from the real objective increase",
                                      st, K_max, min_leaf, explore, o.get("model"), n, d):
                        res["obligations"][-1]["verdict"] = "inconclusive"
        else:
            kind = "none"
        # (ii) no admissible alternative does better (and a split is returned whenever one has positive gain)
        if gains:
            conds = []
            for a, ga in gains:
                b = (ga - g) > 0
                conds.append(b.t if isinstance(b, core.SymBool) else z3.BoolVal(bool(b)))
            fs = list(core.CTX.assumptions) + list(pc) + [z3.Or(*conds)]
            v, model, info = solve.check(fs, timeout_s=timeout_q, logic="QF_LRA")
            res["queries"] += 1
            o = {"name": ptag + f"/no admissible alternative has a larger increase ({len(gains)} alternatives)", "verdict": v, "how": "solver", **info}
            res["obligations"].append(o)
            if v == "sat":
                env = harness.model_env(model, default=0.0)
                gv = core.eval_float(g, env)
                better = max(gains, key=lambda ag: core.eval_float(ag[1], env))
                bk = better[0][5]
                if not _violation(res, seen_sigs, not_best_sig(kind, bk),
                                  f"a {bk} alternative has a larger objective increase than the returned {kind} split", st, K_max, min_leaf, explore, model, n, d):
                    o["verdict"] = "inconclusive"
        if len(res["samples"]) < 2:
            res["samples"].append({"state": _st_json(st), "K_max": K_max, "min_leaf": min_leaf, "alternatives": len(alts), "returned_kind": kind, "pc_size": len(pc)})
    if ex.truncated or ex.depth_hits:
        res["obligations"].append({"name": tag + "/exploration", "verdict": "unknown", "how": "path budget exhausted"})


def not_best_sig(returned, better):
    """one signature per defect SITE: a wrong double-star estimate can show up on either side of the comparison; a wrong
    second-best bookkeeping shows up as a better reallocation being missed"""
    if "double_star" in (returned, better):
        return f"{PROP}:not-best:double_star-estimate"
    if better == "reallocation":
        return f"{PROP}:not-best:better=reallocation"
    return f"{PROP}:not-best:returned={returned}:better={better}"


def _st_json(st):
    return {"X": st["X"].tolist(), "leaves": st["leaves"], "clusters": st["clusters"]}


def _violation(res, seen_sigs, sig, what, st, K_max, min_leaf, explore, model, n, d):
    if not model:
        return False
    rep = {"state": _st_json(st), "K_max": K_max, "min_leaf": min_leaf, "explore": explore, "n": n, "d": d, "expect": sig,
           "model": {k: str(v) for k, v in model.items() if k.startswith("k_")}}
    got = replay(rep)
    if got is None:
        return False
    # the signature is recomputed from the CONCRETE run (source of truth for what actually fails)
    if got not in seen_sigs:
        seen_sigs.add(got)
        res["violations"].append({"signature": got, "what": what if got == sig else f"{what} [concrete run: {got}]", "replay": rep})
    return True


def _concrete_kernel(rep):
    n = rep["n"]
    Km = np.zeros((n, n))
    for i in range(n):
        for j in range(i, n):
            Km[i, j] = Km[j, i] = float(Fraction(rep["model"].get(f"k_{i}_{j}", 0)))
    return Km


def replay(rep, verbose=False):
    """run the compiled extension AND the translated source on the concrete kernel; brute-force oracle in floats.
    returns the violation signature observed, or None."""
    st = {"X": np.array(rep["state"]["X"], dtype=float), "leaves": rep["state"]["leaves"], "clusters": rep["state"]["clusters"]}
    n, d = rep["n"], rep["d"]
    Km = _concrete_kernel(rep)
    Y, Z, L, c = build_arrays(st, rep["K_max"])
    alts = alternatives(st, rep["K_max"], rep["min_leaf"], rep["explore"], list(range(d)))
    gains = [(a, float(gain_of(Km, st, a))) for a in alts]
    sigs = []
    impls = [("translated-source", loader.load("tree._utils"))]
    try:
        impls.append(("compiled", loader.real("tree._utils")))
    except Exception:
        pass
    for name, U in impls:
        bs = U.find_best_split(Km.copy(), st["X"].copy(), np.array(rep["explore"], dtype=np.int64), Y.copy(), Z.copy(), c, rep["K_max"], L, rep["min_leaf"],
                               np.arange(d, dtype=np.intp))
        g = float(bs.gain)
        scale = max(1.0, np.abs(Km).max() * n)
        sig = None
        kind = "none"
        if int(bs.leaf) != -1:
            kind = kind_of(st, int(bs.leaf), int(bs.left_target), int(bs.right_target))
            match = [ga for (a, ga) in gains if a[0] == int(bs.leaf) and a[1] == int(bs.feature) and abs(a[2] - float(bs.threshold)) < 1e-12
                     and a[6] == int(bs.left_target) and a[7] == int(bs.right_target)]
            if not match:
                sig = f"{PROP}:inadmissible:{kind}"
            elif abs(match[0] - g) > 1e-9 * scale:
                sig = f"{PROP}:gain-mismatch:{kind}"
                if verbose:
                    print(f"[{name}] returned {kind} split leaf={bs.leaf} thr={bs.threshold} targets=({bs.left_target},{bs.right_target}) claimed gain {g}, real increase {match[0]}")
        if sig is None and gains:
            best = max(gains, key=lambda ag: ag[1])
            if best[1] > g + 1e-9 * scale:
                sig = not_best_sig(kind, best[0][5])
                if verbose:
                    print(f"[{name}] returned {kind} with gain {g}; alternative {best[0][5]} leaf={best[0][0]} thr={best[0][2]} targets=({best[0][6]},{best[0][7]}) increases J by {best[1]}")
        if sig:
            sigs.append((name, sig))
    if verbose:
        print("state", rep["state"], "K_max", rep["K_max"], "min_leaf", rep["min_leaf"], "kernel", Km.tolist(), "->", sigs)
    if not sigs:
        return None
    # prefer the translated source's signature (it is the file under test); note disagreement
    return sigs[0][1]


def job_translator(n_states=300, seed=0):
    """Serval-style validation of the .pyx -> Python translation against the shipped compiled extension."""
    loader.install()
    res = {"paths": 0, "queries": 0, "obligations": [], "violations": [], "validated": 0, "witnesses": 0, "samples": []}
    U = loader.load("tree._utils")
    try:
        R = loader.real("tree._utils")
    except Exception as e:
        res["obligations"].append({"name": "translator/compiled extension importable", "verdict": "unknown", "how": repr(e)[:200]})
        return res
    rng = np.random.default_rng(seed)
    disagree = 0
    for t in range(n_states):
        n = int(rng.integers(3, 7))
        d = int(rng.integers(1, 3))
        X = rng.integers(0, 4, size=(n, d)).astype(float)
        L = int(rng.integers(1, n + 1))
        lab = rng.integers(0, L, size=n)
        lab[:L] = np.arange(L)
        leaves = [sorted(np.where(lab == j)[0].tolist()) for j in range(L)]
        c = int(rng.integers(1, L + 1))
        cl = rng.integers(0, c, size=L)
        cl[:c] = np.arange(c)
        clusters = [sorted(np.where(cl == k)[0].tolist()) for k in range(c)]
        st = {"X": X, "leaves": leaves, "clusters": clusters}
        K_max = c + int(rng.integers(0, 3))
        G = rng.normal(size=(n, n))
        Km = (G + G.T) / 2
        Y, Z, _, _ = build_arrays(st, K_max)
        explore = np.arange(L, dtype=np.int64)
        args = lambda: (Km.copy(), X.copy(), explore.copy(), Y.copy(), Z.copy(), c, K_max, L, int(rng.integers(1, 3)) * 0 + 1, np.arange(d, dtype=np.intp))
        a = U.find_best_split(*args())
        b = R.find_best_split(*args())
        # equal gains (up to rounding) is the criterion: exact ties between candidate splits are broken by rounding noise,
        # which differs between exact-rational and C-double intermediate arithmetic
        same = abs(float(a.gain) - float(b.gain)) <= 1e-9 * max(1.0, abs(float(b.gain)))
        res["identical_choice"] = res.get("identical_choice", 0) + int(int(a.leaf) == int(b.leaf) and int(a.left_target) == int(b.left_target)
                                                                       and int(a.right_target) == int(b.right_target) and int(a.feature) == int(b.feature))
        res["validated"] += 1
        if not same:
            disagree += 1
            if len(res["samples"]) < 3:
                res["samples"].append({"state": _st_json(st), "translated": [float(a.gain), int(a.leaf), int(a.left_target), int(a.right_target)],
                                       "compiled": [float(b.gain), int(b.leaf), int(b.left_target), int(b.right_target)]})
    res["paths"] = n_states
    res["obligations"].append({"name": f"translator/translated .pyx == compiled .so on {n_states} random states", "verdict": "unsat" if disagree == 0 else "stale-binary",
                               "how": "differential", "disagreements": disagree})
    if disagree and not res["samples"]:
        res["samples"].append({"note": "STALE-BINARY: the compiled extension no longer corresponds to the .pyx text"})
    return res


def jobs(tier):
    q = tier == "quick"
    out = [{"name": "translator", "target": "checks.c08:job_translator", "kwargs": dict(n_states=300 if q else 2000), "timeout": 600}]
    plan = []
    if q:
        plan += [(2, 1, 1), (3, 1, 1), (4, 1, 1)]      # n <= 4 exhaustive (measured: ~25 s on 16 cores)
    else:
        plan += [(2, 1, 1), (3, 1, 1), (4, 1, 1), (5, 1, 12), (3, 2, 6)]
    for n, d, stride in plan:
        total = sum(1 for _ in states(n, d))
        chunks = 16 if total >= 64 else 4 if total >= 8 else 1
        idx = list(range(0, total, stride))
        per = -(-len(idx) // chunks)
        for ci in range(chunks):
            part = idx[ci * per:(ci + 1) * per]
            if not part:
                continue
            out.append({"name": f"n{n}d{d}/states{part[0]}-{part[-1]}by{stride}", "target": "checks.c08:job",
                        "kwargs": dict(n=n, d=d, state_slice=(part[0], part[-1] + 1, stride), subset_explore=(n <= 3),
                                       K_offsets=(0, 1, 2), min_leafs=(1, 2) if n <= 4 else (1,)),
                        "timeout": 280 if q else 3000})
    for i, stj in enumerate(realloc_states(6)):
        if q and i >= 2:
            break
        out.append({"name": f"realloc-n6/{i}", "target": "checks.c08:job_explicit", "kwargs": dict(states_list=[stj], K_offsets=(0,) if q else (0, 1, 2)),
                    "timeout": 280 if q else 3000})
    return out


def run(tier, seed, only=None, nproc=None):
    t0 = time.time()
    js = [j for j in jobs(tier) if not only or only in j["name"]]
    pairs = runner.run_jobs(js, nproc=nproc, seed=seed)
    nstates = sum((r or {}).get("states", 0) for _, r in pairs if r)
    return runner.finish(
        PROP, tier, seed, pairs, t0,
        assumptions=["the .pyx text is the source of truth (mechanical translation validated against the compiled extension on random states)",
                     "kernel: arbitrary symmetric real matrix; exact arithmetic", "feature values enter only through their order and ties (enumerated)"],
        bounds={"tier": tier, "discrete_states": nstates, "plan(n,d,stride)": "quick: n<=4 exhaustive (d=1) + two n=6 four-cluster states; thorough: + n=5 every 12th state, d=2 at n=3, all four n=6 states with K_max offsets"},
        extra_cov={"discrete_states": nstates})
