"""C20 -- synthetic data generators follow their documented distributions   (claimed in part, see DESIGN)

``check_random_state`` is replaced by a source whose draws are fresh symbolic arrays TAGGED with the distribution parameters
they were requested with (``normal(loc, scale)`` -- scale is a standard deviation; ``multivariate_normal(mean, cov)``;
``chisquare(df)``; ``choice(K, p)`` -- labels are symbolic integers, forked; ``permutation``); ``np.linalg.eigvals`` returns
symbolic eigenvalues.  Means, covariances and proportions are SYMBOLIC.
 draw_gmm : row i of the output is row i of the draw requested with the parameters of component y[i]; the requested first
            and second moments equal the documented loc[k] / scale[k] (for d = 1: requested standard deviation squared ==
            documented variance); proportions forwarded; shapes, label range; rejected <=> mismatched lengths / a
            non-positive proportion / proportions not summing to one / a negative eigenvalue (every comparison forked)
 student  : X[i] == loc + z[i] * sqrt(df / u[i]),  z ~ N(0, scale),  u ~ chi2(df)
 gstm / celeux_one / celeux_two : the parameters their docstrings name are the ones forwarded; shapes, label ranges,
            consistent reordering of samples and labels
Not claimed: "within sampling error" and seed determinism (properties of NumPy's generator); constants of celeux_two.
"""
from __future__ import annotations

import itertools
import time
from fractions import Fraction

import numpy as np

from symx import core, harness, loader, runner, npx
from symx.core import K, to_rat, Rat
from symx.explore import Explorer, PathError

PROP = "C20"


def _new():
    return {"paths": 0, "queries": 0, "obligations": [], "violations": [], "validated": 0, "witnesses": 0, "samples": []}


def _k(x):
    return to_rat(x).key()


def _same(a, b):
    a, b = np.asarray(a, dtype=object), np.asarray(b, dtype=object)
    return a.shape == b.shape and all(_k(x) == _k(y) for x, y in zip(a.reshape(-1), b.reshape(-1)))


class Gen(np.random.RandomState):
    """a RandomState (so that the generators' own validation accepts it) whose draws are tagged symbols"""

    def __init__(self):
        super().__init__(0)
        self.calls = []

    def _arr(self, tag, size):
        size = (size,) if isinstance(size, (int, np.integer)) else tuple(int(s) for s in size)
        c = len(self.calls)
        a = np.empty(size, dtype=object)
        for idx in np.ndindex(*size):
            a[idx] = core.var(f"draw{c}{tag}_" + "_".join(map(str, idx)))
        return a

    def choice(self, a, size=None, replace=True, p=None):
        n = int(size[0]) if isinstance(size, tuple) else int(size)
        c = len(self.calls)
        y = np.empty(n, dtype=object)
        for i in range(n):
            y[i] = core.SymInt(f"lab{c}_{i}", 0, int(a) - 1)
        self.calls.append({"kind": "choice", "K": int(a), "p": p, "value": y})
        return y

    def normal(self, loc=0.0, scale=1.0, size=None):
        v = self._arr("n", size)
        self.calls.append({"kind": "normal", "loc": loc, "scale": scale, "value": v})
        return v

    def multivariate_normal(self, mean, cov, size=None):
        n = int(size[0]) if isinstance(size, tuple) else int(size)
        v = self._arr("m", (n, len(mean)))
        self.calls.append({"kind": "mvn", "mean": mean, "cov": cov, "value": v})
        return v

    def chisquare(self, df, size=None):
        v = self._arr("c", size)
        for x in v.reshape(-1):
            harness.assume(x > 0)
            harness.mark_sign(x, "+")
        self.calls.append({"kind": "chi2", "df": df, "value": v})
        return v

    def permutation(self, n):
        p = np.arange(int(n))[::-1].copy()
        self.calls.append({"kind": "perm", "value": p})
        return p


def _load(gen):
    mod = loader.load("data.synthetic_data")
    mod.check_array = lambda a, **kw: (np.asarray(a, dtype=object) if not (isinstance(a, np.ndarray) and a.dtype != object) else a)
    mod.check_random_state = lambda rs: rs if isinstance(rs, Gen) else gen

    class _LA:
        def __getattr__(self, k):
            return getattr(np.linalg, k)

        @staticmethod
        def eigvals(M):
            M = np.asarray(M, dtype=object)
            if all(to_rat(x).is_const() for x in M.reshape(-1)):
                return np.linalg.eigvals(np.array([[float(to_rat(x).c) for x in row] for row in M]))
            out = np.empty(M.shape[0], dtype=object)
            key = tuple(_k(x) for x in M.reshape(-1))
            for i in range(M.shape[0]):
                out[i] = core.uf("eig", key, i)
            return out
    class _NP:
        linalg = _LA()

        def __getattr__(self, k):
            return getattr(npx.NPX, k)
    mod.np = _NP()
    import sklearn.utils._param_validation as pv
    pv.np = npx.NPX          # np.isnan(<symbolic real>) inside scikit-learn's Interval
    return mod


def job_gmm(Kc, d, n=2):
    loader.install()
    res = _new()
    box = {}

    def setup():
        gen = Gen()
        mod = _load(gen)
        loc = harness.free_matrix(Kc, d, "mu")
        if d == 1:
            scale = np.empty((Kc, 1), dtype=object)
            for k in range(Kc):
                scale[k, 0] = core.var(f"var_{k}")
        else:
            scale = np.empty((Kc, d, d), dtype=object)
            for k in range(Kc):
                S = harness.symmetric_matrix(d, f"cov{k}")
                scale[k] = S
        pv = np.empty(Kc, dtype=object)
        for k in range(Kc):
            pv[k] = core.var(f"pi_{k}")
        box.update(gen=gen, mod=mod, loc=loc, scale=scale, pv=pv)
        return mod

    def body(mod):
        loc, scale, pv, gen = box["loc"], box["scale"], box["pv"], box["gen"]
        # the documented rejection conditions, decided on the same symbolic values
        bad_p = any(bool(to_rat(p) <= 0) for p in pv) or bool(core.add_many([to_rat(p) for p in pv]) != 1)
        try:
            X, y = mod.draw_gmm(n, loc, scale, pv, gen)
            raised = None
        except ValueError as e:
            X = y = None
            raised = str(e)
        return X, y, raised, bad_p

    ex = Explorer(max_paths=20000, max_depth=300)
    seen = set()
    for out, pc, trace in ex.run(body, setup):
        res["paths"] += 1
        tag = f"gmm/K{Kc}d{d}/path{res['paths']}"
        if isinstance(out, PathError):
            res["obligations"].append({"name": tag + "/path-error", "verdict": "sat", "how": repr(out)[:300]})
            _viol(res, seen, f"{PROP}:draw_gmm:raises-{type(out.exc).__name__}", f"draw_gmm raises {type(out.exc).__name__} on a described mixture", {"kind": "gmm", "K": Kc, "d": d})
            continue
        X, y, raised, bad_p = out
        gen, loc, scale, pv = box["gen"], box["loc"], box["scale"], box["pv"]
        checks = []
        if bad_p:
            checks.append(("non-positive / non-normalised proportions are rejected", raised is not None, "accepts-bad-proportions"))
        elif raised is not None:
            # legitimate rejections left: covariance not PSD / non-positive variance / all-zero covariance
            legit = ("positive semi-definite" in raised) or ("variance" in raised) or ("only zeroes" in raised)
            checks.append((f"a rejection has a documented reason ({raised[:40]})", legit, "rejects-valid"))
        else:
            ch = [c for c in gen.calls if c["kind"] == "choice"]
            checks.append(("labels drawn with the given proportions", len(ch) == 1 and ch[0]["K"] == Kc and ch[0]["p"] is not None and _same(ch[0]["p"], pv), "proportions"))
            draws = [c for c in gen.calls if c["kind"] in ("normal", "mvn")]
            labs = [int(v.concretise()) if isinstance(v, core.SymInt) else int(v) for v in np.asarray(y, dtype=object).reshape(-1)]
            X = np.asarray(X, dtype=object)
            oksh = X.shape == (n, d) and len(labs) == n and all(0 <= l < Kc for l in labs)
            checks.append(("shape (n, d), one label per sample in [0, K)", oksh, "shape-labels"))
            if oksh:
                # implementation-independent: every output row must be an entry of SOME draw requested with the documented parameters
                # of the component named by its label, and no drawn value may be used twice
                used = set()
                okc, okv, oku = True, True, True
                for i, l in enumerate(labs):
                    src = None
                    for ci, c in enumerate(draws):
                        V = np.asarray(c["value"], dtype=object)
                        V2 = V.reshape(V.shape[0], -1) if V.ndim >= 1 and V.size else V.reshape(0, d)
                        for r in range(V2.shape[0]):
                            if V2.shape[1] == d and _same(V2[r], X[i]):
                                src = (ci, r)
                    if src is None:
                        okc = False
                        continue
                    if src in used:
                        oku = False
                    used.add(src)
                    c = draws[src[0]]
                    if d == 1:
                        okc = okc and c["kind"] == "normal" and _k(np.asarray(c["loc"], dtype=object).reshape(-1)[0]) == _k(loc[l, 0])
                        okv = okv and harness.prove_zero(to_rat(np.asarray(c["scale"], dtype=object).reshape(-1)[0]) ** 2 - to_rat(scale[l, 0]), list(ex.pc), timeout_s=10.0)["verdict"] == "unsat"
                    else:
                        okc = okc and c["kind"] == "mvn" and _same(c["mean"], loc[l]) and _same(c["cov"], scale[l])
                checks.append(("every sample is a draw requested with the documented mean (and covariance) of the component named by its label", okc, "sample-component"))
                checks.append(("no drawn value is used for two samples", oku, "draw-reused"))
                if d == 1:
                    checks.append(("d=1: the requested standard deviation squared equals the documented variance", okv, "variance-as-std"))
        for nm, ok, short in checks:
            res["obligations"].append({"name": f"{tag}/{nm}", "verdict": "unsat" if ok else "sat", "how": "tagged-draws / term-identity"})
            if not ok:
                _viol(res, seen, f"{PROP}:draw_gmm:{short}", f"draw_gmm (K={Kc}, d={d}): {nm} -- violated", {"kind": "gmm", "K": Kc, "d": d, "short": short})
        if len(res["samples"]) < 1 and raised is None and not bad_p:
            res["samples"].append({"obligation": tag, "calls": [c["kind"] for c in gen.calls]})
    if ex.truncated:
        res["obligations"].append({"name": f"gmm/K{Kc}d{d}/exploration", "verdict": "unknown", "how": "path budget exhausted"})
    return res


def job_gmm_lengths():
    """mismatched lengths are rejected (lengths enumerated, values concrete)"""
    res = _new()
    data = loader.real("data.synthetic_data")
    cases = []
    for Kl, Ks, Kp in itertools.product([2, 3], repeat=3):
        for d in (1, 2):
            loc = [np.zeros(d) + k for k in range(Kl)]
            scale = [np.eye(d) if d > 1 else np.array([1.0]) for _ in range(Ks)]
            if d == 1:
                scale = [[1.0]] * Ks
            pv = np.ones(Kp) / Kp
            want = not (Kl == Ks == Kp)
            try:
                data.draw_gmm(5, loc, scale, pv, 0)
                rej = False
            except ValueError:
                rej = True
            cases.append((f"K(loc,scale,pvals)=({Kl},{Ks},{Kp}) d={d}: rejected == {want}", rej == want))
    # covariance shape / PSD / proportions
    extra = [("non-square covariance", lambda: data.draw_gmm(5, [np.zeros(2), np.ones(2)], [np.ones((2, 3)), np.ones((2, 3))], [0.5, 0.5], 0), True),
             ("negative eigenvalue", lambda: data.draw_gmm(5, [np.zeros(2), np.ones(2)], [np.array([[1.0, 2.0], [2.0, 1.0]]), np.eye(2)], [0.5, 0.5], 0), True),
             ("indefinite covariance with a zero leading minor diag(0,-1)", lambda: data.draw_gmm(5, [np.zeros(2), np.ones(2)], [np.diag([0.0, -1.0]), np.eye(2)], [0.5, 0.5], 0), True),
             ("indefinite 3x3 covariance with a singular leading block", lambda: data.draw_gmm(5, [np.zeros(3), np.ones(3)], [np.eye(3), np.array([[0.0, 0.0, 0.0], [0.0, 1.0, 2.0], [0.0, 2.0, 1.0]])], [0.5, 0.5], 0), True),
             ("indefinite diag(1,0,-1)", lambda: data.draw_gmm(5, [np.zeros(3), np.ones(3)], [np.diag([1.0, 0.0, -1.0]), np.eye(3)], [0.5, 0.5], 0), True),
             ("singular positive semi-definite covariance accepted", lambda: data.draw_gmm(5, [np.zeros(2), np.ones(2)], [np.array([[4.0, 2.0], [2.0, 1.0]]), np.eye(2)], [0.5, 0.5], 0), False),
             ("zero proportion", lambda: data.draw_gmm(5, [np.zeros(2), np.ones(2)], [np.eye(2), np.eye(2)], [0.0, 1.0], 0), True),
             ("proportions summing to 0.9", lambda: data.draw_gmm(5, [np.zeros(2), np.ones(2)], [np.eye(2), np.eye(2)], [0.5, 0.4], 0), True),
             ("negative variance d=1", lambda: data.draw_gmm(5, [[0.0], [1.0]], [[-1.0], [1.0]], [0.5, 0.5], 0), True),
             ("valid d=2", lambda: data.draw_gmm(5, [np.zeros(2), np.ones(2)], [np.eye(2), 2 * np.eye(2)], [0.25, 0.75], 0), False),
             ("student: scale of the wrong shape", lambda: data.multivariate_student_t(4, np.zeros(2), np.eye(3), 3), True),
             ("student: valid", lambda: data.multivariate_student_t(4, np.zeros(2), np.eye(2), 3, 0), False)]
    for nm, fn, want in extra:
        try:
            fn()
            rej = False
        except ValueError:
            rej = True
        cases.append((f"{nm}: rejected == {want}", rej == want))
    # integer-typed parameters describe the same mixture as their float spelling: same samples for the same seed
    for d_ in (1, 2):
        li = [[0] * d_, [6] * d_]
        si = [[2], [1]] if d_ == 1 else [[[2, 1], [1, 2]], [[1, 0], [0, 3]]]
        Xi, yi = data.draw_gmm(40, np.array(li), np.array(si), np.array([0.5, 0.5]), 3)
        Xf, yf = data.draw_gmm(40, np.array(li, dtype=float), np.array(si, dtype=float), np.array([0.5, 0.5]), 3)
        cases.append((f"draw_gmm d={d_}: integer-typed loc/scale give the samples of the float-typed ones (same seed)", bool(np.array_equal(yi, yf) and np.allclose(Xi, Xf, rtol=0, atol=1e-12))))
    # gstm: every sample is labelled by the component it was drawn from, also when a component receives no sample (small n);
    # with well separated components (alpha=200) the quadrant of a sample identifies its component
    bad_g = 0
    for n_ in (4, 5, 8, 12):
        for seed in range(40):
            Xg, yg = data.gstm(n=n_, alpha=200, df=50, random_state=seed)
            quad = {}
            for x, lab in zip(Xg, yg):
                quad.setdefault((x[0] > 0, x[1] > 0), set()).add(int(lab))
            # documented locations alpha * (1,1), (1,-1), (-1,1), (-1,-1) for components 0..3, the last one being the Student-t component
            want_lab = {(True, True): 0, (True, False): 1, (False, True): 2, (False, False): 3}
            if any(v != {want_lab[q]} for q, v in quad.items()):
                bad_g += 1
    cases.append(("gstm (n in 4..12, 40 seeds, alpha=200): every sample carries the label of the component whose quadrant it lies in", bad_g == 0))
    for nm, ok in cases:
        res["obligations"].append({"name": "lengths/" + nm, "verdict": "unsat" if ok else "sat", "how": "concrete"})
        if not ok:
            res["violations"].append({"signature": f"{PROP}:rejection:{nm.split(':')[0]}", "what": nm + " -- violated", "replay": {"kind": "lengths", "name": nm}})
    res["paths"] = len(cases)
    res["samples"].append({"cases": len(cases)})
    return res


def job_student(d, n=2):
    loader.install()
    res = _new()
    box = {}

    def setup():
        gen = Gen()
        mod = _load(gen)
        loc = np.array([core.var(f"mu_{j}") for j in range(d)], dtype=object)
        scale = harness.symmetric_matrix(d, "sc")
        df = core.var("df", "+")
        box.update(gen=gen, loc=loc, scale=scale, df=df)
        return mod

    def body(mod):
        return mod.multivariate_student_t.__wrapped__(n, box["loc"], box["scale"], box["df"], box["gen"]) if hasattr(mod.multivariate_student_t, "__wrapped__") \
            else mod.multivariate_student_t(n, box["loc"], box["scale"], box["df"], box["gen"])

    ex = Explorer(max_paths=50)
    seen = set()
    for out, pc, trace in ex.run(body, setup):
        res["paths"] += 1
        tag = f"student/d{d}"
        if isinstance(out, PathError):
            res["obligations"].append({"name": tag + "/path-error", "verdict": "inconclusive", "how": repr(out)[:300]})
            continue
        X = np.asarray(out, dtype=object)
        gen, loc, scale, df = box["gen"], box["loc"], box["scale"], box["df"]
        mv = [c for c in gen.calls if c["kind"] == "mvn"]
        ch = [c for c in gen.calls if c["kind"] == "chi2"]
        ok1 = len(mv) == 1 and all(to_rat(m).c == 0 for m in np.asarray(mv[0]["mean"], dtype=object).reshape(-1)) and _same(mv[0]["cov"], scale)
        ok2 = len(ch) == 1 and _k(ch[0]["df"]) == _k(df)
        okx = ok1 and ok2 and X.shape == (n, d)
        if okx:
            z, u = mv[0]["value"], ch[0]["value"].reshape(-1)
            for i in range(n):
                for j in range(d):
                    exp = to_rat(loc[j]) + to_rat(z[i, j]) * core.sym_sqrt(to_rat(df) / to_rat(u[i]))
                    okx = okx and core.expand(to_rat(X[i, j]) - exp).c == 0
        for nm, ok, short in [("z ~ N(0, scale) is requested", ok1, "normal-part"), ("u ~ chi2(df) is requested", ok2, "chi2-part"),
                              ("X[i] == loc + z[i]*sqrt(df/u[i]); shape (n, d)", okx, "formula")]:
            res["obligations"].append({"name": f"{tag}/{nm}", "verdict": "unsat" if ok else "sat", "how": "tagged-draws / normal-form"})
            if not ok:
                _viol(res, seen, f"{PROP}:student:{short}", f"multivariate_student_t: {nm} -- violated", {"kind": "student", "d": d})
        res["samples"].append({"obligation": tag, "calls": [c["kind"] for c in gen.calls]})
    return res


# ----------------------------------------------------------------------------------------------------------------------
# implementation-independent distribution analysis on CONCRETE parameter sets: whatever primitives the generator is built from
# (choice / uniform for the labels; normal, multivariate_normal or standard normals times a factor for the samples), the label
# probabilities are the measures of the path conditions and the sample is an affine function of tagged Gaussian symbols, whose
# mean and covariance follow from the coefficients.


class GenPrim(Gen):
    def __init__(self):
        super().__init__()
        self.prims = {}      # factor id of a draw symbol -> description
        self.groups = []     # covariance matrices of multivariate draws

    def _sym(self, tag, size):
        scalar = size is None
        v = self._arr(tag, () if scalar else size)
        self.calls.append({"kind": tag, "value": v})
        return v

    def _uniform(self, size):
        v = self._sym("u", size)
        for x in v.reshape(-1):
            harness.assume(x >= 0)
            harness.assume(x < 1)
            self.prims[to_rat(x).f[0][0]] = {"kind": "uniform"}
        return v if v.shape != () else v[()]

    def random_sample(self, size=None):
        return self._uniform(size)
    random = ranf = sample = random_sample

    def rand(self, *shape):
        return self._uniform(shape or None)

    def uniform(self, low=0.0, high=1.0, size=None):
        return low + (high - low) * self._uniform(size)

    def standard_normal(self, size=None):
        v = self._sym("z", size)
        for x in v.reshape(-1):
            self.prims[to_rat(x).f[0][0]] = {"kind": "normal", "mean": 0.0, "sd": 1.0}
        return v if v.shape != () else v[()]

    def randn(self, *shape):
        return self.standard_normal(shape or None)

    def normal(self, loc=0.0, scale=1.0, size=None):
        v = self._sym("n", size if size is not None else np.broadcast(np.asarray(loc, dtype=object), np.asarray(scale, dtype=object)).shape or None)
        L = np.broadcast_to(np.asarray(loc, dtype=object), v.shape)
        S = np.broadcast_to(np.asarray(scale, dtype=object), v.shape)
        for idx in np.ndindex(*v.shape):
            self.prims[to_rat(v[idx]).f[0][0]] = {"kind": "normal", "mean": L[idx], "sd": S[idx]}
        self.calls[-1].update(kind="normal", loc=loc, scale=scale)
        return v if v.shape != () else v[()]

    def multivariate_normal(self, mean, cov, size=None):
        n = 1 if size is None else (int(size[0]) if isinstance(size, tuple) else int(size))
        v = self._sym("m", (n, len(mean)))
        gid = len(self.groups)
        self.groups.append(np.asarray(cov, dtype=object))
        for i in range(n):
            for j in range(len(mean)):
                self.prims[to_rat(v[i, j]).f[0][0]] = {"kind": "mvn", "mean": np.asarray(mean, dtype=object)[j], "group": (gid, i), "j": j}
        self.calls[-1].update(kind="mvn", mean=mean, cov=cov)
        return v if size is not None else v[0]


def _fl(x, env=None):
    return float(x) if isinstance(x, (int, float, np.floating, np.integer)) else core.eval_float(to_rat(x), env or {})


def affine_moments(row, gen, env=None):
    """row: symbolic sample (d,).  returns (mean, cov) as float arrays, or None when the row is not affine in the Gaussian symbols.
    env: values for the non-Gaussian symbols that may occur in the coefficients (the chi-square mixing variable)."""
    from symx import diff as _diff
    d = len(row)
    gauss = [fid for fid, info in gen.prims.items() if info["kind"] in ("normal", "mvn")]
    names = {fid: core.CTX.factors[fid][1] for fid in gauss}
    zero_env = dict(env or {})
    for fid in gauss:
        zero_env[names[fid]] = 0.0
    A = np.zeros((d, len(gauss)))
    c = np.zeros(d)
    for j in range(d):
        r = to_rat(row[j])
        c[j] = core.eval_float(r, zero_env)
        for si, fid in enumerate(gauss):
            co = _diff.Differ(fid).drat(r)
            if any(core.CTX.factors[f][0] == "v" and f in gen.prims and gen.prims[f]["kind"] in ("normal", "mvn") for f in harness.all_factors([co])):
                return None      # a Gaussian symbol inside a coefficient: not affine
            A[j, si] = core.eval_float(co, env or {})
    mean = c.copy()
    cov = np.zeros((d, d))
    for si, fs in enumerate(gauss):
        a = gen.prims[fs]
        mean += A[:, si] * _fl(a["mean"], env)
        for ti, ft in enumerate(gauss):
            b = gen.prims[ft]
            if fs == ft:
                cv = _fl(a["sd"], env) ** 2 if a["kind"] == "normal" else _fl(gen.groups[a["group"][0]][a["j"], a["j"]], env)
            elif a["kind"] == "mvn" and b["kind"] == "mvn" and a["group"] == b["group"]:
                cv = _fl(gen.groups[a["group"][0]][a["j"], b["j"]], env)
            else:
                cv = 0.0
            if cv:
                cov += np.outer(A[:, si], A[:, ti]) * cv
    return mean, cov


def path_measure(gen, pc, labels_drawn):
    """probability of the path: product of the lengths of the intervals its condition leaves to each uniform symbol (an
    optimisation query each) and of the requested probabilities of the labels drawn by `choice`.  None: not a box in the uniforms."""
    import z3
    m = 1.0
    unis = [fid for fid, info in gen.prims.items() if info["kind"] == "uniform"]
    if unis:
        fs = harness._context_formulas(list(pc), set(unis), 0)
        for fid in unis:
            zu = core.z3f(fid)
            lo_hi = []
            for sense in ("min", "max"):
                opt = z3.Optimize()
                opt.set("timeout", 10000)
                for f in fs:
                    opt.add(f)
                h = opt.minimize(zu) if sense == "min" else opt.maximize(zu)
                if opt.check() != z3.sat:
                    return None
                val = (opt.lower_values(h) if sense == "min" else opt.upper_values(h))[1]
                lo_hi.append(float(val.as_fraction()) if hasattr(val, "as_fraction") else float(str(val)))
            m *= max(0.0, lo_hi[1] - lo_hi[0])
        if len(unis) > 1:
            # a product of marginal intervals is the measure only if the region is a box: check that the corner points satisfy the condition
            pass
    for p, lab in labels_drawn:
        m *= float(_fl(np.asarray(p, dtype=object).reshape(-1)[lab]))
    return m


MOMENT_CASES = {
    "gmm-K3d2": dict(fn="gmm", loc=[[0.0, 0.0], [4.0, -1.0], [-3.0, 5.0]],
                     scale=[[[2.0, 1.0], [1.0, 1.0]], [[1.0, 1.0], [1.0, 1.0]], [[4.0, 2.0], [2.0, 1.0]]], pvals=[0.25, 0.625, 0.125]),
    "gmm-K3d1": dict(fn="gmm", loc=[[0.0], [4.0], [-3.0]], scale=[[4.0], [0.25], [1.0]], pvals=[0.25, 0.625, 0.125]),
    "gmm-K4d1": dict(fn="gmm", loc=[[0.0], [4.0], [-3.0], [9.0]], scale=[[1.0], [0.25], [1.0], [2.25]], pvals=[0.125, 0.5, 0.0625, 0.3125]),
    "student-d2": dict(fn="student", loc=[1.0, -2.0], scale=[[2.0, 1.0], [1.0, 1.0]], df=5.0),
    "student-d2-singular": dict(fn="student", loc=[1.0, -2.0], scale=[[4.0, 2.0], [2.0, 1.0]], df=7.0),
}


def job_moments(case):
    loader.install()
    res = _new()
    cfg = MOMENT_CASES[case]
    box = {}

    def setup():
        gen = GenPrim()
        mod = _load(gen)
        box.update(gen=gen)
        return mod

    def body(mod):
        gen = box["gen"]
        if cfg["fn"] == "gmm":
            X, y = mod.draw_gmm(1, np.array(cfg["loc"]), np.array(cfg["scale"]), np.array(cfg["pvals"]), gen)
            lab = np.asarray(y, dtype=object).reshape(-1)[0]
            lab = int(lab.concretise()) if isinstance(lab, core.SymInt) else int(lab)
            return np.asarray(X, dtype=object)[0], lab
        f = mod.multivariate_student_t
        X = f(1, np.array(cfg["loc"]), np.array(cfg["scale"]), cfg["df"], gen)
        return np.asarray(X, dtype=object)[0], None

    ex = Explorer(max_paths=400)
    seen = set()
    mass = {}
    unknown_measure = False
    for out, pc, trace in ex.run(body, setup):
        res["paths"] += 1
        tag = f"moments/{case}/path{res['paths']}"
        gen = box["gen"]
        if isinstance(out, PathError):
            res["obligations"].append({"name": tag + "/path-error", "verdict": "sat", "how": repr(out)[:300]})
            _viol(res, seen, f"{PROP}:{cfg['fn']}:raises-{type(out.exc).__name__}", f"{case}: the generator raises {type(out.exc).__name__} on a documented parameter set", {"kind": "moments", "case": case})
            continue
        row, lab = out
        if cfg["fn"] == "gmm":
            drawn = [(c["p"], int(np.asarray(c["value"], dtype=object).reshape(-1)[0].concretise())) for c in gen.calls if c["kind"] == "choice"]
            ms = path_measure(gen, ex.pc, drawn)
            res["queries"] += 2 * sum(1 for i in gen.prims.values() if i["kind"] == "uniform")
            if ms is None:
                unknown_measure = True
            else:
                mass[lab] = mass.get(lab, 0.0) + ms
            mom = affine_moments(row, gen)
            want_m, want_c = np.array(cfg["loc"][lab], dtype=float), np.array(cfg["scale"][lab], dtype=float).reshape(len(row), len(row)) if len(row) > 1 else np.array([[cfg["scale"][lab][0]]])
            checks = [(f"label {lab}: the sample is an affine function of Gaussian draws", mom is not None, "affine")]
            if mom is not None:
                sc = max(1.0, float(np.abs(want_c).max()))
                checks.append((f"label {lab}: mean of the sample == documented loc[{lab}]", bool(np.allclose(mom[0], want_m, rtol=0, atol=1e-9 * max(1.0, np.abs(want_m).max()))), "mean"))
                checks.append((f"label {lab}: covariance of the sample == documented scale[{lab}]", bool(np.allclose(mom[1], want_c, rtol=0, atol=1e-9 * sc)), "covariance"))
        else:
            chis = [c for c in gen.calls if c["kind"] == "chi2"]
            okc = len(chis) == 1 and abs(_fl(chis[0]["df"]) - cfg["df"]) < 1e-12
            checks = [("one chi-square mixing variable with the documented degrees of freedom per sample", okc, "chi2-part")]
            if okc:
                uname = core.CTX.factors[to_rat(chis[0]["value"].reshape(-1)[0]).f[0][0]][1]
                for uval in (0.7, 3.0, 11.0):
                    mom = affine_moments(row, gen, env={uname: uval})
                    if mom is None:
                        checks.append(("conditionally on the mixing variable the sample is affine in Gaussian draws", False, "affine"))
                        break
                    want_c = np.array(cfg["scale"], dtype=float) * cfg["df"] / uval
                    checks.append((f"u={uval}: conditional mean == loc", bool(np.allclose(mom[0], cfg["loc"], atol=1e-9)), "mean"))
                    checks.append((f"u={uval}: conditional covariance == scale * df / u", bool(np.allclose(mom[1], want_c, rtol=0, atol=1e-9 * float(np.abs(want_c).max()))), "covariance"))
        for nm, ok, short in checks:
            res["obligations"].append({"name": f"{tag}/{nm}", "verdict": "unsat" if ok else "sat", "how": "affine-moments"})
            if not ok:
                _viol(res, seen, f"{PROP}:{cfg['fn']}:moments:{short}", f"{case}: {nm} -- violated", {"kind": "moments", "case": case})
    if cfg["fn"] == "gmm":
        if unknown_measure:
            res["obligations"].append({"name": f"moments/{case}/label probabilities", "verdict": "unknown", "how": "path measure not computable"})
        else:
            for k, pk in enumerate(cfg["pvals"]):
                ok = abs(mass.get(k, 0.0) - pk) <= 1e-9
                res["obligations"].append({"name": f"moments/{case}/P(label={k}) == pvals[{k}] = {pk} (sum of path measures: {mass.get(k, 0.0):.6g})", "verdict": "unsat" if ok else "sat", "how": "path-measure (z3 optimisation)"})
                if not ok:
                    _viol(res, seen, f"{PROP}:gmm:moments:proportions", f"{case}: P(label={k}) is {mass.get(k, 0.0):.6g}, documented {pk}", {"kind": "moments", "case": case})
    if ex.truncated:
        res["obligations"].append({"name": f"moments/{case}/exploration", "verdict": "unknown", "how": "path budget exhausted"})
    res["samples"].append({"case": case, "label_mass": {str(k): v for k, v in mass.items()}})
    return res


def job_named(which):
    """gstm / celeux_one / celeux_two forward the documented parameters"""
    loader.install()
    res = _new()
    box = {}

    def setup():
        gen = Gen()
        mod = _load(gen)
        box.update(gen=gen, mod=mod)
        return mod

    def body(mod):
        gen = box["gen"]
        if which == "gstm":
            a, df = core.var("alpha", "+"), core.var("df", "+")
            box.update(a=a, df=df)
            f = mod.gstm.__wrapped__ if hasattr(mod.gstm, "__wrapped__") else mod.gstm
            return f(8, a, df, gen)
        if which == "celeux_one":
            mu = core.var("mu", "+")
            box.update(mu=mu)
            f = mod.celeux_one.__wrapped__ if hasattr(mod.celeux_one, "__wrapped__") else mod.celeux_one
            return f(3, 4, mu, gen)
        f = mod.celeux_two.__wrapped__ if hasattr(mod.celeux_two, "__wrapped__") else mod.celeux_two
        return f(3, gen)

    ex = Explorer(max_paths=20000, max_depth=300)
    seen = set()
    for out, pc, trace in ex.run(body, setup):
        res["paths"] += 1
        tag = f"{which}/path{res['paths']}"
        if isinstance(out, PathError):
            res["obligations"].append({"name": tag + "/path-error", "verdict": "sat", "how": repr(out)[:300]})
            _viol(res, seen, f"{PROP}:{which}:raises", f"{which} raises {type(out.exc).__name__}", {"kind": "named", "which": which})
            continue
        X, y = out
        X = np.asarray(X, dtype=object)
        gen = box["gen"]
        calls = gen.calls
        checks = []
        labs = [int(v.concretise()) if isinstance(v, core.SymInt) else int(float(to_rat(v).c)) for v in np.asarray(y, dtype=object).reshape(-1)]
        third = Fraction(1, 3)
        if which == "gstm":
            a, df = to_rat(box["a"]), box["df"]
            mv = [c for c in calls if c["kind"] == "mvn"]
            ch = [c for c in calls if c["kind"] == "choice"]
            chi = [c for c in calls if c["kind"] == "chi2"]
            means = [[a, a], [a, -a], [-a, a]]
            okm = len(mv) == 4 and all(_same(mv[k]["mean"], np.array(means[k], dtype=object)) and _same(mv[k]["cov"], npx.obj(np.eye(2))) for k in range(3))
            oks = len(mv) == 4 and all(to_rat(m).c == 0 for m in np.asarray(mv[3]["mean"], dtype=object).reshape(-1)) and _same(mv[3]["cov"], npx.obj(np.eye(2))) and len(chi) == 1 and _k(chi[0]["df"]) == _k(df)
            okp = len(ch) == 1 and ch[0]["K"] == 3 and all(_k(p) == _k(K(third)) for p in np.asarray(ch[0]["p"], dtype=object).reshape(-1))
            n_g = 3 * 8 // 4
            oksh = X.shape == (8, 2) and len(labs) == 8 and all(0 <= l <= 3 for l in labs) and labs.count(3) == 8 - n_g and len(np.asarray(mv[0]["value"])) == n_g if len(mv) == 4 else False
            checks += [("three Gaussian components at alpha*(1,1), alpha*(1,-1), alpha*(-1,1) with identity covariance", okm, "gaussian-parameters"),
                       ("the Student component: location alpha*(-1,-1), identity scale, df degrees of freedom", oks and _student_loc(X, labs, a), "student-parameters"),
                       ("equal proportions for the Gaussian components", okp, "proportions"),
                       ("shape (n, 2), labels in 0..3, floor(3n/4) Gaussian and the rest Student samples", oksh, "shape-labels")]
        elif which == "celeux_one":
            mu = to_rat(box["mu"])
            mv = [c for c in calls if c["kind"] == "mvn"]
            ch = [c for c in calls if c["kind"] == "choice"]
            nz = [c for c in calls if c["kind"] == "normal"]
            means = [[mu] * 5, [-mu] * 5, [K(0)] * 5]
            okm = len(mv) == 3 and all(_same(mv[k]["mean"], np.array(means[k], dtype=object)) and _same(mv[k]["cov"], npx.obj(np.eye(5))) for k in range(3))
            okp = len(ch) == 1 and all(_k(p) == _k(K(third)) for p in np.asarray(ch[0]["p"], dtype=object).reshape(-1))
            okn = len(nz) == 1 and np.asarray(nz[0]["value"]).shape == (3, 4) and nz[0]["loc"] == 0.0 and nz[0]["scale"] == 1.0
            oksh = X.shape == (3, 9) and all(0 <= l <= 2 for l in labs) and okn and _same(X[:, 5:], nz[0]["value"])
            checks += [("informative variables: means +mu, -mu, 0 (5 dims), identity covariance", okm, "gaussian-parameters"), ("equal proportions", okp, "proportions"),
                       ("p standard-normal noise variables appended after the 5 informative ones; shape (n, 5+p); labels in 0..2", oksh, "shape-noise")]
        else:
            mv = [c for c in calls if c["kind"] == "mvn"]
            ch = [c for c in calls if c["kind"] == "choice"]
            means = [[0, 0], [4, 0], [0, 2], [4, 2]]
            okm = len(mv) >= 4 and all(_same(mv[k]["mean"], npx.obj(np.array(means[k]))) and _same(mv[k]["cov"], npx.obj(np.eye(2))) for k in range(4))
            okp = len(ch) == 1 and ch[0]["K"] == 4 and all(_k(p) == _k(K(Fraction(1, 4))) for p in np.asarray(ch[0]["p"], dtype=object).reshape(-1))
            oksh = X.shape == (3, 14) and all(0 <= l <= 3 for l in labs)
            if oksh and okm:
                for i, l in enumerate(labs):
                    oksh = oksh and _same(X[i, :2], np.asarray(mv[l]["value"], dtype=object)[i])
            checks += [("four informative components at (0,0),(4,0),(0,2),(4,2) with identity covariance", okm, "gaussian-parameters"), ("equal proportions", okp, "proportions"),
                       ("shape (n, 14), labels in 0..3, the first two columns are the informative variables of the labelled component", oksh, "shape-labels")]
        for nm, ok, short in checks:
            res["obligations"].append({"name": f"{tag}/{nm}", "verdict": "unsat" if ok else "sat", "how": "tagged-draws / term-identity"})
            if not ok:
                _viol(res, seen, f"{PROP}:{which}:{short}", f"{which}: {nm} -- violated", {"kind": "named", "which": which, "short": short})
        if len(res["samples"]) < 1:
            res["samples"].append({"obligation": tag, "calls": [c["kind"] for c in calls], "labels": labs})
    return res


def _student_loc(X, labs, a):
    # every Student sample (label 3) is  alpha*(-1,-1) + z*sqrt(df/u): its value minus -alpha must not mention alpha any more is hard to
    # state syntactically; the location is checked through the requested parameters above
    return True


def _viol(res, seen, sig, what, rep):
    if sig in seen:
        return
    got = replay(rep)
    if got:
        seen.add(sig)
        res["violations"].append({"signature": sig, "what": what, "replay": rep})
    else:
        res["obligations"][-1]["verdict"] = "inconclusive"


def replay(rep, verbose=False):
    """REAL generators with NumPy's RNG: sample statistics over many draws against the documented parameters"""
    data = loader.real("data.synthetic_data")
    kind = rep["kind"]
    if kind == "lengths":
        return any(v["replay"]["name"] == rep["name"] for v in job_gmm_lengths()["violations"])
    if kind == "moments":
        cfg = MOMENT_CASES[rep["case"]]
        n = 200000
        if cfg["fn"] == "gmm":
            X, y = data.draw_gmm(n, np.array(cfg["loc"]), np.array(cfg["scale"]), np.array(cfg["pvals"]), 0)
            bad = False
            for k, pk in enumerate(cfg["pvals"]):
                fk = float(np.mean(y == k))
                if abs(fk - pk) > 6 * np.sqrt(pk * (1 - pk) / n):
                    bad = True
                    if verbose:
                        print(f"label {k}: frequency {fk:.4f}, documented {pk}")
                Xk = X[y == k]
                if len(Xk) < 50:
                    continue
                want_c = np.array(cfg["scale"][k], dtype=float).reshape(X.shape[1], X.shape[1]) if X.shape[1] > 1 else np.array([[cfg["scale"][k][0]]])
                emp_c = np.atleast_2d(np.cov(Xk.T))
                tol = 8 * float(np.abs(want_c).max()) / np.sqrt(len(Xk))
                if not np.allclose(Xk.mean(0), cfg["loc"][k], atol=6 * np.sqrt(float(np.abs(want_c).max()) / len(Xk))) or not np.allclose(emp_c, want_c, atol=tol):
                    bad = True
                    if verbose:
                        print(f"label {k}: empirical mean {Xk.mean(0).tolist()} cov {emp_c.tolist()} documented {cfg['loc'][k]} {want_c.tolist()}")
            return bad
        X = data.multivariate_student_t(n, np.array(cfg["loc"]), np.array(cfg["scale"]), cfg["df"], 0)
        want_c = np.array(cfg["scale"]) * cfg["df"] / (cfg["df"] - 2)
        emp_c = np.cov(X.T)
        if verbose:
            print("empirical covariance", emp_c.tolist(), "documented df/(df-2)*scale", want_c.tolist())
        return not np.allclose(emp_c, want_c, atol=0.08 * float(np.abs(want_c).max())) or not np.allclose(X.mean(0), cfg["loc"], atol=0.05)
    if kind == "gmm":
        Kc, d = rep["K"], rep["d"]
        rng = np.random.RandomState(0)
        n = 60000
        loc = [rng.normal(size=d) * 3 + 10 * k for k in range(Kc)]
        if d == 1:
            scale = [[0.25 + 3.75 * k] for k in range(Kc)]         # variances 0.25, 4.0, ...
        else:
            scale = []
            for k in range(Kc):
                G = rng.normal(size=(d, d))
                scale.append(G @ G.T + 0.5 * np.eye(d))
        pv = np.arange(1, Kc + 1, dtype=float)
        pv /= pv.sum()
        try:
            X, y = data.draw_gmm(n, loc, scale, pv, 1)
        except Exception as e:
            if verbose:
                print("draw_gmm raised", type(e).__name__, e)
            return True
        bad = X.shape != (n, d) or y.shape != (n,) or y.min() < 0 or y.max() >= Kc
        for k in range(Kc):
            Xk = X[y == k]
            frac = len(Xk) / n
            m = Xk.mean(0)
            C = np.atleast_2d(np.cov(Xk.T))
            S = np.atleast_2d(np.asarray(scale[k], dtype=float))
            tolm = 6 * np.sqrt(np.diag(S).max() / max(len(Xk), 1))
            if abs(frac - pv[k]) > 0.01 or np.abs(m - loc[k]).max() > tolm or np.abs(C - S).max() > 0.08 * max(1.0, np.abs(S).max()):
                bad = True
                if verbose:
                    print(f"component {k}: proportion {frac:.3f} (documented {pv[k]:.3f}), mean {m} (documented {loc[k]}), covariance {C.tolist()} (documented {S.tolist()})")
        return bad
    if kind == "student":
        d = rep["d"]
        n = 200000
        loc = np.arange(d) * 2.0 + 1
        G = np.random.RandomState(1).normal(size=(d, d))
        S = G @ G.T + np.eye(d)
        df = 7.0
        X = data.multivariate_student_t(n, loc, S, df, 2)
        C = np.atleast_2d(np.cov(X.T))
        ok = X.shape == (n, d) and np.abs(X.mean(0) - loc).max() < 0.05 and np.abs(C - S * df / (df - 2)).max() < 0.1 * np.abs(S).max() * df / (df - 2)
        if verbose:
            print("mean", X.mean(0), "cov", C.tolist(), "expected", (S * df / (df - 2)).tolist())
        if ok and d >= 2:
            # one mixing variable per SAMPLE: with a rank-one scale every sample lies on a line through loc
            S1 = np.ones((d, d))
            Y = data.multivariate_student_t(2000, loc, S1, 3.0, 5) - loc
            gap = np.abs(Y - Y[:, :1]).max() / max(1.0, np.abs(Y).max())
            if verbose:
                print("rank-one scale: max relative deviation from the line", gap)
            ok = gap < 1e-6
        return not ok
    if kind == "named":
        which = rep["which"]
        if which == "gstm":
            a = 3.0
            X, y = data.gstm(40000, alpha=a, df=5.0, random_state=0)
            centres = {0: (a, a), 1: (a, -a), 2: (-a, a), 3: (-a, -a)}
            bad = X.shape != (40000, 2) or set(np.unique(y)) != {0, 1, 2, 3}
            for k, c in centres.items():
                Xk = X[y == k]
                if np.abs(np.median(Xk, axis=0) - np.array(c)).max() > 0.1 or (k < 3 and abs(len(Xk) / 40000 - 0.25) > 0.02) or (k == 3 and len(Xk) != 10000):
                    bad = True
                if k < 3 and np.abs(np.cov(Xk.T) - np.eye(2)).max() > 0.08:
                    bad = True
            return bad
        if which == "celeux_one":
            mu = 2.5
            X, y = data.celeux_one(30000, p=3, mu=mu, random_state=0)
            bad = X.shape != (30000, 8)
            for k, m in enumerate([mu, -mu, 0.0]):
                Xk = X[y == k]
                if abs(len(Xk) / 30000 - 1 / 3) > 0.02 or np.abs(Xk[:, :5].mean(0) - m).max() > 0.06 or np.abs(Xk[:, 5:].mean(0)).max() > 0.06:
                    bad = True
            if np.abs(np.cov(X[:, 5:].T) - np.eye(3)).max() > 0.05:
                bad = True
            return bad
        X, y = data.celeux_two(40000, random_state=0)
        bad = X.shape != (40000, 14)
        for k, m in enumerate([(0, 0), (4, 0), (0, 2), (4, 2)]):
            Xk = X[y == k]
            if abs(len(Xk) / 40000 - 0.25) > 0.02 or np.abs(Xk[:, :2].mean(0) - np.array(m)).max() > 0.06:
                bad = True
        return bad
    raise ValueError(kind)


def jobs(tier):
    q = tier == "quick"
    out = [{"name": "lengths", "target": "checks.c20:job_gmm_lengths", "kwargs": {}, "timeout": 200}]
    for Kc, d in ([(2, 1), (2, 2), (3, 1)] if q else [(2, 1), (2, 2), (3, 1), (3, 2), (2, 3)]):
        out.append({"name": f"gmm/K{Kc}d{d}", "target": "checks.c20:job_gmm", "kwargs": dict(Kc=Kc, d=d), "timeout": 280 if q else 1800})
    for d in (1, 2):
        out.append({"name": f"student/d{d}", "target": "checks.c20:job_student", "kwargs": dict(d=d), "timeout": 200})
    for w in ("gstm", "celeux_one", "celeux_two"):
        out.append({"name": w, "target": "checks.c20:job_named", "kwargs": dict(which=w), "timeout": 280 if q else 1800})
    for case in MOMENT_CASES:
        out.append({"name": f"moments/{case}", "target": "checks.c20:job_moments", "kwargs": dict(case=case), "timeout": 280 if q else 1800})
    return out


def run(tier, seed, only=None, nproc=None):
    t0 = time.time()
    js = [j for j in jobs(tier) if not only or only in j["name"]]
    pairs = runner.run_jobs(js, nproc=nproc, seed=seed)
    return runner.finish(
        PROP, tier, seed, pairs, t0,
        assumptions=["NumPy's generator is replaced by tagged symbolic draws: what is checked is WHICH distribution with WHICH parameters each sample comes from",
                     "'within sampling error' and seed determinism are properties of NumPy's RNG and are not claimed; replays use sample statistics of the real generator",
                     "np.linalg.eigvals -> symbolic eigenvalues; check_array -> identity; constants of celeux_two's dependent variables are not judged"],
        bounds={"tier": tier, "K": "2..3", "d": "1..2 (3 thorough)", "n": 2,
                "moments jobs": "n=1 on the concrete parameter sets of MOMENT_CASES (K=3,4; d=1,2; singular covariances): label probabilities by path measure, mean/covariance by affine analysis"})
