"""C07 -- the regularisation path honours its stopping, history and best-weights contract.

``_path`` is control code around numerics, so the numerics are made the ENVIRONMENT: the real ``_path`` and the real
``path`` methods run against an estimator whose numeric methods are stubs keyed by a weight VERSION counter (every
``_update_weights`` writes the new version number IN PLACE into the weight arrays, so aliasing is visible):
score(version) is a symbolic real or NaN (forked), n_selected(version) a symbolic integer in [0, d], penalty(version) a
symbolic non-negative real.  alpha, alpha_multiplier, keep_threshold, early_stopping_factor are symbolic reals,
min_features a symbolic integer; every comparison of the loop is forked.  Each path's outputs are compared with a reference
model of the documented contract evaluated on the same symbolic values.
"""
from __future__ import annotations

import itertools
import time
import warnings
from fractions import Fraction

import numpy as np

from symx import core, harness, loader, runner
from symx.core import K, to_rat
from symx.explore import Explorer, PathError

PROP = "C07"
MAX_OUTER = 2       # unwinding bound: the environment drops every feature at the latest after this many outer steps


STEP_LIMIT = 200     # concrete replays; symbolic runs use (MAX_OUTER + 3) * max_iter * n_batches


class NonTermination(RuntimeError):
    pass


class Env:
    def __init__(self, family, d, n_batches, max_iter, max_patience, dynamic, nan_allowed, sym_args, concrete=None):
        self.family, self.d, self.n_batches = family, d, n_batches
        self.max_iter = max_iter
        self.version = 0
        self.updates = 0
        self.scores, self.nfs, self.pens = {}, {}, {}
        self.blocks = 1                   # > 1: the validation score is evaluated by blocks of rows (mini-batches), see score()
        self.n_rows = 2
        self.block_scores, self.whole = {}, {}
        self.concrete = concrete          # dict of scripted values for the concrete replay, or None
        self.nan_allowed = nan_allowed
        self.outer_started = 0
        self.log = []

    # values keyed by the weight version ---------------------------------------------------------------------------
    def score(self, v):
        """the validation score of weight version v: the size-weighted mean of the GEMINI of each block of rows (one block = the
        whole data unless mini-batches are configured)"""
        if v not in self.scores:
            if self.concrete is not None:
                if self.blocks > 1:
                    bs = [self.concrete["score"].get(f"{v}:{r}", self.concrete["score"].get(str(v), 0.5)) for r in range(self.blocks)]
                    self.block_scores[v] = bs
                    self.scores[v] = sum(bs) / self.blocks
                else:
                    self.scores[v] = self.concrete["score"].get(str(v), 0.5)
            else:
                if self.nan_allowed and v > 0 and bool(core.SymBool(__import__("z3").Bool(f"nan{v}"))):
                    self.scores[v] = float("nan")
                    self.block_scores[v] = [float("nan")] * self.blocks
                elif self.blocks > 1:
                    bs = [core.var(f"s{v}b{r}", "+") for r in range(self.blocks)]
                    self.block_scores[v] = bs
                    self.scores[v] = core.add_many([to_rat(b) for b in bs]) / self.blocks
                else:
                    self.scores[v] = core.var(f"s{v}", "+")
        return self.scores[v]

    def gem_value(self, v, rows):
        """what the (stubbed) GEMINI returns for the predictions of `rows` under weight version v"""
        if self.blocks <= 1:
            return self.score(v)
        self.score(v)
        if len(rows) < self.n_rows:
            return self.block_scores[v][rows[0] // (self.n_rows // self.blocks)]
        # the GEMINI of the WHOLE data is another quantity than the mean over blocks (larger for MI / MMD): its own symbol
        if v not in self.whole:
            self.whole[v] = core.var(f"sw{v}", "+") if self.concrete is None else self.concrete["score"].get(f"w:{v}", 1.3 * float(self.scores[v]) if self.scores[v] == self.scores[v] else float("nan"))
        return self.whole[v]

    def nf(self, v):
        if v not in self.nfs:
            if self.concrete is not None:
                self.nfs[v] = int(self.concrete["nf"].get(str(v), 0))
            elif self.outer_started > MAX_OUTER:
                self.nfs[v] = 0
            else:
                self.nfs[v] = core.SymInt(f"nf{v}", 0, self.d).concretise()
        return self.nfs[v]

    def pen(self, v):
        if v not in self.pens:
            self.pens[v] = core.var(f"pen{v}", "0+") if self.concrete is None else float(self.concrete["pen"].get(str(v), 1.0))
        return self.pens[v]


class _NF(int):
    def item(self):
        return int(self)


def make_estimator(env, mods, family, alpha, dynamic, max_iter, batch_size_none=True):
    mod = mods[family]
    cls = getattr(mod, family)
    kw = dict(n_clusters=2, max_iter=max_iter, dynamic=dynamic) if "Sparse" in family else {}
    est = cls(**kw)
    est.alpha = alpha
    d = env.d
    smlp = "MLP" in family

    def fit(X, y=None):
        env.version = 0
        if smlp:
            est.W1_, est.W2_, est.W_skip_, est.b1_, est.b2_ = (np.zeros((d, 1)), np.zeros((1, 2)), np.zeros((d, 2)), np.zeros((1, 1)), np.zeros((1, 2)))
        else:
            est.W_, est.b_ = np.zeros((d, 2)), np.zeros((1, 2))
        est.groups_ = None
        est.labels_ = np.zeros(len(X), dtype=int)
        env.log.append(("fit", to_rat(est.alpha).key() if not isinstance(est.alpha, (int, float)) else est.alpha))
        env.fit_alpha = est.alpha
        return est
    est.fit = fit

    def update(weights, grads):
        env.version += 1
        env.updates += 1
        if env.version > (STEP_LIMIT if env.concrete is not None else (MAX_OUTER + 3) * env.max_iter * env.n_batches):
            # the environment drops every feature after MAX_OUTER outer steps, so a terminating path makes at most
            # (MAX_OUTER + 1) * max_iter * n_batches (<= 4 * 2 * 2) updates: beyond that the loop does not stop
            raise NonTermination("weight updates continue although no feature is left: the path does not terminate")
        for w in weights:
            w[...] = float(env.version)          # in place, like the optimiser + proximal step
    est._update_weights = update
    est._n_selected_features = lambda: _NF(env.nf(env.version))
    est._group_lasso_penalty = lambda: env.pen(env.version)
    est.get_selection = lambda: np.arange(d)
    def proba(X):
        # the first column carries the identity of the rows (X[r, 0] == r * d), so that the GEMINI stub knows what it is evaluated on
        out = np.zeros((len(X), 2))
        out[:, 0] = np.asarray(X, dtype=float)[:, 0] / d
        return out
    est.predict_proba = proba
    est._infer = lambda X, retain=True: proba(X)
    if env.blocks > 1:
        est.batch_size = env.n_rows // env.blocks
    est._compute_grads = lambda X, y_pred, g: [np.zeros(w.shape) for w in est._get_weights()]

    def batchify(X, affinity=None, random_state=None):
        for b in range(env.n_batches):
            yield X, affinity
    est._batchify = batchify

    class Gem:
        def compute_affinity(self, X, y=None):
            return y

        def __call__(self, y_pred, affinity, return_grad=False):
            rows = [int(round(float(r))) for r in np.asarray(y_pred)[:, 0]]
            s = env.gem_value(env.version, rows)
            if isinstance(s, (int, float)):
                s = np.float64(s)        # the real objectives return NumPy scalars
            return (s, np.zeros((len(y_pred), 2))) if return_grad else s
    est.get_gemini = lambda: Gem()
    return est


def reference(env, args, T_obs, d):
    """the documented contract, evaluated on the environment's values (symbolic comparisons are decisions)"""
    m = args["alpha_multiplier"]
    if bool(to_rat(m) <= 1):
        m = Fraction(105, 100)
    keep = args["keep_threshold"]
    if bool(to_rat(keep) < 0) or bool(to_rat(keep) > 1):
        keep = Fraction(9, 10)
    minf = args["min_features"]
    if minf <= 0:
        minf = 2
    return m, keep, minf


def job(family, d, n_batches, max_iter, max_patience, dynamic, restore, nan_allowed, minf_range, y_given=False, sanitise=False, max_outer=None, val_blocks=1):
    loader.install()
    res = {"paths": 0, "queries": 0, "obligations": [], "violations": [], "validated": 0, "witnesses": 0, "samples": []}
    box = {}
    X = np.arange(2 * d, dtype=float).reshape(2, d)

    def setup():
        sb = loader.load("sparse._base_sparse")
        mods = {"SparseLinearModel": loader.load("sparse._linear_sparse"), "SparseMLPModel": loader.load("sparse._mlp_sparse")}

        class Opt:
            def __init__(self, params, lr=0.001, *a, **kw):
                self.learning_rate = lr
        sb.SGDOptimizer = Opt
        sb.check_random_state = lambda rs: None
        env = Env(family, d, n_batches, max_iter, max_patience, dynamic, nan_allowed, None)
        env.blocks = val_blocks
        alpha = core.var("alpha", "+")
        if max_outer is not None:
            globals()["MAX_OUTER"] = max_outer
        mult, keep = core.var("mult"), core.var("keep")
        if not sanitise:
            # in-range arguments (the out-of-range branches are explored by the dedicated sanitisation jobs)
            harness.assume(mult > 1)
            harness.assume(keep >= 0)
            harness.assume(keep <= 1)
        args = {"alpha_multiplier": mult, "keep_threshold": keep, "early_stopping_factor": core.var("esf"),
                "min_features": core.SymInt("minf", minf_range[0], minf_range[1]).concretise(), "max_patience": max_patience}
        harness.assume(args["early_stopping_factor"] > 0)
        harness.assume(args["early_stopping_factor"] < 1)
        est = make_estimator(env, mods, family, alpha, dynamic, max_iter)
        # count outer steps for the unwinding bound: every evaluation of the loop condition asks n_selected on a settled version
        box.update(env=env, est=est, args=args, alpha=alpha, sb=sb)
        return est

    def body(est):
        env, args = box["env"], box["args"]
        orig_nsel = est._n_selected_features
        state = {"last_v": None}

        def nsel():
            # the loop condition is the first reader of a new version after an outer step
            if state["last_v"] != env.version:
                state["last_v"] = env.version
                env.outer_started += 1
            return orig_nsel()
        est._n_selected_features = nsel
        with warnings.catch_warnings(record=True) as wl:
            warnings.simplefilter("always")
            out = est.path(X, y=(np.eye(2) if y_given else None), alpha_multiplier=args["alpha_multiplier"], min_features=args["min_features"], keep_threshold=args["keep_threshold"],
                           restore_best_weights=restore, early_stopping_factor=args["early_stopping_factor"], max_patience=args["max_patience"])
        return out, [str(w.message) for w in wl]

    ex = Explorer(max_paths=30000, max_depth=400)
    tagbase = f"{family}/d{d}/b{n_batches}/it{max_iter}/pat{max_patience}/{'dyn' if dynamic else 'static'}/{'restore' if restore else 'norestore'}{'/nan' if nan_allowed else ''}{'/valblocks%d' % val_blocks if val_blocks > 1 else ''}"
    seen = set()
    for out, pc, trace in ex.run(body, setup):
        res["paths"] += 1
        tag = f"{tagbase}/path{res['paths']}"
        env, est, args = box["env"], box["est"], box["args"]
        if isinstance(out, PathError):
            res["obligations"].append({"name": tag + "/path() raised", "verdict": "sat", "how": repr(out)[:300]})
            _viol(res, seen, f"{PROP}:raises:{type(out.exc).__name__}", f"path() raises {type(out.exc).__name__}", box, tagbase, family, d, n_batches, max_iter, max_patience, dynamic, restore, y_given)
            if isinstance(out.exc, NonTermination):
                # every continuation of a non-terminating loop forks again: stop here, the rest of this job is not explored
                res["obligations"].append({"name": tagbase + "/exploration", "verdict": "unknown", "how": "stopped after a non-terminating path"})
                break
            continue
        (best_w, geminis, pens, alphas, nfeat), warns = out
        checks = contract(env, est, args, box["alpha"], best_w, geminis, pens, alphas, nfeat, warns, d, dynamic, restore, family, n_batches, y_given)
        for nm, ok, sig, what in checks:
            res["obligations"].append({"name": f"{tag}/{nm}", "verdict": "unsat" if ok else "sat", "how": "path-evaluation"})
            if not ok:
                _viol(res, seen, sig, what, box, tagbase, family, d, n_batches, max_iter, max_patience, dynamic, restore, y_given)
        if len(res["samples"]) < 2 and len(alphas) >= 1:
            res["samples"].append({"config": tagbase, "outer_steps": len(alphas), "n_features": [int(x) for x in nfeat], "best_weights_version": float(best_w[0].reshape(-1)[0]), "warnings": warns[:2]})
    if ex.truncated or ex.depth_hits:
        res["obligations"].append({"name": tagbase + "/exploration", "verdict": "unknown", "how": "path budget exhausted"})
    return res


def _cmp(a, b, op):
    """comparison of possibly-NaN, possibly symbolic values as a Python bool (decision when symbolic)"""
    fa, fb = isinstance(a, float), isinstance(b, float)
    if (fa and a != a) or (fb and b != b):
        return False
    if op == ">=":
        return bool(to_rat(a) >= to_rat(b)) if not (fa and fb) else a >= b
    if op == "==":
        return bool(to_rat(a) == to_rat(b)) if not (fa and fb) else a == b
    raise ValueError(op)


def contract(env, est, args, alpha0, best_w, geminis, pens, alphas, nfeat, warns, d, dynamic, restore, family, n_batches, y_given):
    out = []
    T = len(alphas)
    out.append(("four histories of equal length", len(geminis) == T and len(pens) == T and len(nfeat) == T, f"{PROP}:history-length", "the four histories have different lengths"))
    if not out[-1][1]:
        return out      # the remaining clauses index the histories step by step
    # sanitised arguments + warnings
    m, keep, minf = args["alpha_multiplier"], args["keep_threshold"], args["min_features"]
    bad_m = bool(to_rat(m) <= 1)
    bad_k = bool(to_rat(keep) < 0) or bool(to_rat(keep) > 1)
    bad_f = minf <= 0
    m_eff = 1.05 if bad_m else m          # the documented defaults, as the float literals they are
    keep_eff = 0.9 if bad_k else keep
    minf_eff = 2 if bad_f else minf
    nw = sum(1 for w in warns if "multiplier" in w) >= 1, sum(1 for w in warns if "threshold to keep" in w) >= 1, sum(1 for w in warns if "min_features" in w and "below" in w) >= 1
    out.append(("out-of-range alpha_multiplier replaced by 1.05 with a warning (and only then)", nw[0] == bad_m, f"{PROP}:sanitise:alpha_multiplier", "alpha_multiplier sanitisation/warning wrong"))
    out.append(("out-of-range keep_threshold replaced by 0.9 with a warning (and only then)", nw[1] == bad_k, f"{PROP}:sanitise:keep_threshold", "keep_threshold sanitisation/warning wrong"))
    out.append(("non-positive min_features replaced by 2 with a warning (and only then)", nw[2] == bad_f, f"{PROP}:sanitise:min_features", "min_features sanitisation/warning wrong"))
    # initial fit is unpenalised
    fa = env.fit_alpha
    out.append(("the initial fit is unpenalised (alpha = 0)", (not isinstance(fa, core.Rat) and fa == 0) or (isinstance(fa, core.Rat) and fa.c == 0), f"{PROP}:initial-alpha", "the initial fit does not use alpha = 0"))
    # alphas
    exp_a = to_rat(alpha0)
    ok_a = True
    for t in range(T):
        if to_rat(alphas[t]).key() != exp_a.key():
            ok_a = False
        exp_a = exp_a * to_rat(m_eff)
    out.append(("alphas start at the model's alpha and grow by exactly alpha_multiplier", ok_a, f"{PROP}:alphas", "alphas do not start at alpha and grow by alpha_multiplier"))
    # versions at the end of each recorded step: recover from the penalties (they are keyed by version)
    pen_to_v = {to_rat(p).key() if not isinstance(p, float) else p: v for v, p in env.pens.items()}
    vs = []
    for t in range(T):
        k = to_rat(pens[t]).key() if not isinstance(pens[t], float) else pens[t]
        vs.append(pen_to_v.get(k))
    ok_rec = all(v is not None for v in vs) and all(vs[i] < vs[i + 1] for i in range(T - 1))
    if ok_rec:
        ok_rec = all(int(nfeat[t]) == env.nfs.get(vs[t]) for t in range(T)) and all(_same(geminis[t], env.scores.get(vs[t])) for t in range(T))
    out.append(("each recorded count / penalty / score is that of the model at the end of that step", ok_rec, f"{PROP}:recorded-values", "a recorded feature count, penalty or score is not that of the model at the end of its step"))
    if not ok_rec:
        return out
    # termination condition
    last_v = env.version
    aborted_nan = any(isinstance(s, float) and s != s for s in env.scores.values())
    final_nf = env.nfs.get(last_v, env.nf(last_v))
    out.append(("the run ends with at most min_features features (unless aborted on NaN)", aborted_nan or final_nf <= minf_eff, f"{PROP}:stopping", "path stops while more than min_features features remain"))
    if T and not aborted_nan:
        out.append(("last recorded feature count <= min_features", int(nfeat[-1]) <= minf_eff, f"{PROP}:last-count", "the last recorded feature count exceeds min_features"))
    # best weights: last step whose score reached keep * (best score seen with all features, initial fit included)
    best = env.scores[0]
    best_v = 0
    for t in range(T):
        s = env.scores[vs[t]]
        if _cmp(s, best, ">=") and env.nfs[vs[t]] == d:
            best = s
        thr = to_rat(keep_eff) * to_rat(best) if not isinstance(best, float) else keep_eff * best
        if _cmp(s, thr, ">="):
            best_v = vs[t]
    got_v = [float(np.asarray(w).reshape(-1)[0]) for w in best_w]
    out.append(("best weights are those of the last step reaching keep_threshold x best all-features score (initial fit included)",
                all(g == float(best_v) for g in got_v), f"{PROP}:best-weights", "the returned best weights are not those of the documented step"))
    # restoration
    cur = [float(np.asarray(w).reshape(-1)[0]) for w in est._get_weights()]
    if restore and not dynamic:
        out.append(("restore_best_weights: the estimator ends in the best-weights state", all(c == float(best_v) for c in cur), f"{PROP}:restore", "restore_best_weights does not leave the estimator in the best-weights state"))
    else:
        out.append(("without restoration the estimator keeps the final weights", all(c == float(last_v) for c in cur), f"{PROP}:no-restore", "the estimator's weights were changed although no restoration applies"))
        if restore and dynamic:
            out.append(("dynamic + restore_best_weights warns", any("restore_best_weights" in w for w in warns), f"{PROP}:dynamic-warning", "no warning that restore_best_weights is incompatible with dynamic mode"))
    exp_updates = None
    return out


def _same(a, b):
    if isinstance(a, float) or isinstance(b, float):
        return (isinstance(a, float) and isinstance(b, float)) and ((a != a and b != b) or a == b)
    if b is None:
        return False
    return to_rat(a).key() == to_rat(b).key()


def _viol(res, seen, sig, what, box, tagbase, family, d, n_batches, max_iter, max_patience, dynamic, restore, y_given):
    if sig in seen:
        return
    # concretise the environment of this path: a model of the path condition gives every score / count / parameter
    ex = core.CTX.explorer
    v, model = harness.reachable(list(ex.pc), timeout_s=8.0)
    res["queries"] += 1
    if v != "sat":
        res["obligations"][-1]["verdict"] = "inconclusive" if v != "unsat" else "unsat"
        return
    env = box["env"]
    conc = {"score": {}, "nf": {k: int(vv) for k, vv in ((str(a), b) for a, b in env.nfs.items())}, "pen": {}}
    for ver, s in env.scores.items():
        conc["score"][str(ver)] = "nan" if isinstance(s, float) else float(model.get(f"s{ver}", 1))
        if env.blocks > 1 and not isinstance(s, float):
            for r in range(env.blocks):
                conc["score"][f"{ver}:{r}"] = float(model.get(f"s{ver}b{r}", 1))
    for ver in env.whole:
        conc["score"][f"w:{ver}"] = float(model.get(f"sw{ver}", 1))
    for ver in env.pens:
        conc["pen"][str(ver)] = float(model.get(f"pen{ver}", 1)) + 0.001 * ver
    # distinct penalties per version so that the reference can recover versions
    rep = {"family": family, "d": d, "n_batches": n_batches, "max_iter": max_iter, "max_patience": max_patience, "dynamic": dynamic, "restore": restore, "y_given": y_given,
           "val_blocks": env.blocks, "env": conc, "args": {"alpha": float(model.get("alpha", 1)), "alpha_multiplier": float(model.get("mult", 0)), "keep_threshold": float(model.get("keep", 0)),
                                 "early_stopping_factor": float(model.get("esf", 0.5)), "min_features": int(box["args"]["min_features"])}, "expect": sig}
    got = replay(rep)
    if got and sig in got:
        seen.add(sig)
        res["violations"].append({"signature": sig, "what": f"{family}.path: {what}", "replay": rep})
    else:
        res["obligations"][-1]["verdict"] = "inconclusive"


def replay(rep, verbose=False):
    """REAL _path / path (real numpy, real module) against the same scripted environment with the model's numbers"""
    sb = loader.real("sparse._base_sparse")
    mods = {"SparseLinearModel": loader.real("sparse._linear_sparse"), "SparseMLPModel": loader.real("sparse._mlp_sparse")}

    class Opt:
        def __init__(self, params, lr=0.001, *a, **kw):
            self.learning_rate = lr
    saved = sb.SGDOptimizer
    sb.SGDOptimizer = Opt
    try:
        conc = {"score": {k: (float("nan") if v == "nan" else float(v)) for k, v in rep["env"]["score"].items()}, "nf": rep["env"]["nf"], "pen": rep["env"]["pen"]}
        env = Env(rep["family"], rep["d"], rep["n_batches"], rep["max_iter"], rep["max_patience"], rep["dynamic"], False, None, concrete=conc)
        env.blocks = rep.get("val_blocks", 1)
        a = rep["args"]
        est = make_estimator(env, mods, rep["family"], a["alpha"], rep["dynamic"], rep["max_iter"])
        X = np.arange(2 * rep["d"], dtype=float).reshape(2, rep["d"])
        args = {"alpha_multiplier": a["alpha_multiplier"], "keep_threshold": a["keep_threshold"], "early_stopping_factor": a["early_stopping_factor"],
                "min_features": a["min_features"], "max_patience": rep["max_patience"]}
        with warnings.catch_warnings(record=True) as wl:
            warnings.simplefilter("always")
            try:
                out = est.path(X, y=(np.eye(2) if rep.get("y_given") else None), alpha_multiplier=args["alpha_multiplier"], min_features=args["min_features"],
                               keep_threshold=args["keep_threshold"], restore_best_weights=rep["restore"], early_stopping_factor=args["early_stopping_factor"],
                               max_patience=args["max_patience"])
            except Exception as e:
                if verbose:
                    print("path raised", type(e).__name__, e)
                return {f"{PROP}:raises:{type(e).__name__}"}
        best_w, geminis, pens, alphas, nfeat = out
        # float versions of the contract: wrap values so that the same checker applies
        sigs = set()
        for nm, ok, sig, what in contract_float(env, est, args, a["alpha"], best_w, geminis, pens, alphas, nfeat, [str(w.message) for w in wl], rep["d"], rep["dynamic"], rep["restore"]):
            if not ok:
                sigs.add(sig)
                if verbose:
                    print("FAILS:", nm)
        if verbose:
            print("scores", env.scores, "n_selected", env.nfs, "n_features history", nfeat, "best weights version", float(best_w[0].reshape(-1)[0]), "estimator version", float(est._get_weights()[0].reshape(-1)[0]))
        return sigs
    finally:
        sb.SGDOptimizer = saved


def contract_float(env, est, args, alpha0, best_w, geminis, pens, alphas, nfeat, warns, d, dynamic, restore):
    out = []
    T = len(alphas)
    out.append(("lengths", len(geminis) == T and len(pens) == T and len(nfeat) == T, f"{PROP}:history-length", ""))
    if not out[-1][1]:
        return out
    m, keep, minf = args["alpha_multiplier"], args["keep_threshold"], args["min_features"]
    bad_m, bad_k, bad_f = m <= 1, (keep < 0 or keep > 1), minf <= 0
    m_eff, keep_eff, minf_eff = (1.05 if bad_m else m), (0.9 if bad_k else keep), (2 if bad_f else minf)
    out.append(("warn mult", (sum(1 for w in warns if "multiplier" in w) >= 1) == bad_m, f"{PROP}:sanitise:alpha_multiplier", ""))
    out.append(("warn keep", (sum(1 for w in warns if "threshold to keep" in w) >= 1) == bad_k, f"{PROP}:sanitise:keep_threshold", ""))
    out.append(("warn minf", (sum(1 for w in warns if "min_features" in w and "below" in w) >= 1) == bad_f, f"{PROP}:sanitise:min_features", ""))
    out.append(("initial alpha", env.fit_alpha == 0, f"{PROP}:initial-alpha", ""))
    ea = alpha0
    oka = True
    for t in range(T):
        oka = oka and abs(alphas[t] - ea) <= 1e-9 * max(1.0, abs(ea))
        ea *= m_eff
    out.append(("alphas", oka, f"{PROP}:alphas", ""))
    pen_to_v = {round(p, 9): v for v, p in env.pens.items()}
    vs = [pen_to_v.get(round(float(p), 9)) for p in pens]
    okr = all(v is not None for v in vs) and all(vs[i] < vs[i + 1] for i in range(T - 1))
    if okr:
        okr = all(int(nfeat[t]) == env.nfs.get(vs[t]) for t in range(T)) and all(_samef(geminis[t], env.scores.get(vs[t])) for t in range(T))
    out.append(("recorded", okr, f"{PROP}:recorded-values", ""))
    if not okr:
        return out
    last_v = env.version
    nan = any(s != s for s in env.scores.values())
    out.append(("stopping", nan or env.nf(last_v) <= minf_eff, f"{PROP}:stopping", ""))
    if T and not nan:
        out.append(("last count", int(nfeat[-1]) <= minf_eff, f"{PROP}:last-count", ""))
    best, best_v = env.scores[0], 0
    for t in range(T):
        s = env.scores[vs[t]]
        if s >= best and env.nfs[vs[t]] == d:
            best = s
        if s >= keep_eff * best:
            best_v = vs[t]
    out.append(("best weights", all(float(np.asarray(w).reshape(-1)[0]) == float(best_v) for w in best_w), f"{PROP}:best-weights", ""))
    cur = [float(np.asarray(w).reshape(-1)[0]) for w in est._get_weights()]
    if restore and not dynamic:
        out.append(("restore", all(c == float(best_v) for c in cur), f"{PROP}:restore", ""))
    else:
        out.append(("no restore", all(c == float(last_v) for c in cur), f"{PROP}:no-restore", ""))
        if restore and dynamic:
            out.append(("dyn warn", any("restore_best_weights" in w for w in warns), f"{PROP}:dynamic-warning", ""))
    return out


def _samef(a, b):
    if b is None:
        return False
    return (a != a and b != b) or a == b


def jobs(tier):
    q = tier == "quick"
    out = []
    cfgs = [("SparseLinearModel", 2, 1, 1, 1, False, True, False, (1, 1)), ("SparseLinearModel", 2, 1, 1, 1, False, False, False, (1, 1)),
            ("SparseLinearModel", 2, 1, 1, 1, True, True, False, (1, 1)), ("SparseMLPModel", 2, 1, 1, 1, False, True, False, (1, 1)),
            ("SparseLinearModel", 2, 1, 1, 1, False, True, True, (1, 1)),
            ("SparseLinearModel", 2, 2, 1, 1, False, True, False, (1, 1)), ("SparseLinearModel", 2, 1, 2, 1, False, True, False, (1, 1)),
            ("SparseLinearModel", 3, 1, 1, 1, False, True, False, (1, 1))]      # d=3: a step can lose features and still continue
    if not q:
        cfgs += [("SparseLinearModel", 3, 1, 1, 1, False, True, False, (1, 2)), ("SparseLinearModel", 2, 1, 2, 2, False, True, False, (1, 1)),
                 ("SparseMLPModel", 2, 2, 1, 1, False, True, True, (1, 1)), ("SparseMLPModel", 2, 1, 1, 1, True, True, False, (0, 2)),
                 ("SparseLinearModel", 2, 2, 2, 2, False, True, True, (1, 1))]
    for fam, d, nb, it, pat, dyn, rest, nan, mr in cfgs:
        out.append({"name": f"{fam}/d{d}/b{nb}/it{it}/pat{pat}/{'dyn' if dyn else 'static'}/{'restore' if rest else 'norestore'}{'/nan' if nan else ''}/minf{mr}",
                    "target": "checks.c07:job", "kwargs": dict(family=fam, d=d, n_batches=nb, max_iter=it, max_patience=pat, dynamic=dyn, restore=rest, nan_allowed=nan, minf_range=mr,
                                                               max_outer=(2 if q else 3)),
                    "timeout": 280 if q else 3000})
    # argument sanitisation: every in/out-of-range combination of alpha_multiplier, keep_threshold, min_features (one outer step)
    for fam in ("SparseLinearModel", "SparseMLPModel"):
        out.append({"name": f"{fam}/sanitise", "target": "checks.c07:job",
                    "kwargs": dict(family=fam, d=2, n_batches=1, max_iter=1, max_patience=1, dynamic=False, restore=True, nan_allowed=False, minf_range=(-1, 3), sanitise=True, max_outer=1),
                    "timeout": 280 if q else 3000})
    # mini-batches: the validation score is the size-weighted mean of per-block GEMINIs, which is not the GEMINI of the whole data
    for fam in ("SparseLinearModel", "SparseMLPModel"):
        out.append({"name": f"{fam}/d2/b2/it1/pat1/static/restore/valblocks2", "target": "checks.c07:job",
                    "kwargs": dict(family=fam, d=2, n_batches=2, max_iter=1, max_patience=1, dynamic=False, restore=True, nan_allowed=False, minf_range=(1, 1), max_outer=2, val_blocks=2),
                    "timeout": 280 if q else 3000})
    out.append({"name": "SparseLinearModel/precomputed-affinity", "target": "checks.c07:job",
                "kwargs": dict(family="SparseLinearModel", d=2, n_batches=1, max_iter=1, max_patience=1, dynamic=False, restore=True, nan_allowed=False, minf_range=(1, 1), y_given=True, max_outer=2), "timeout": 280 if q else 2400})
    return out


def run(tier, seed, only=None, nproc=None):
    t0 = time.time()
    js = [j for j in jobs(tier) if not only or only in j["name"]]
    pairs = runner.run_jobs(js, nproc=nproc, seed=seed)
    return runner.finish(
        PROP, tier, seed, pairs, t0,
        assumptions=[f"the numerics are the environment: score / selected-feature count / penalty are arbitrary values of the weight version; the count is forced to 0 after {MAX_OUTER} outer steps (unwinding bound)",
                     "that a real model's feature count eventually falls is not claimed (an analytic fact about growing alpha, not a property of this loop)",
                     "exact reals for alpha *= alpha_multiplier"],
        bounds={"tier": tier, "outer_steps": f"<= {MAX_OUTER}", "max_iter": "1..2", "max_patience": "1..2", "batches": "1..2", "d": "2..3"})
