"""C16 -- invalid hyper-parameters and malformed inputs are rejected, never trained on.

numeric : for every numeric hyper-parameter of every estimator / GEMINI constructor / validated function, the value is a
          SYMBOLIC integer or real; the REAL validation (`_validate_params`, `constraint_params`) is executed and every
          comparison it makes is forked.  On every feasible path:   accepted  <=>  value inside the documented domain
          (table below, transcribed from the documentation -- not from `_parameter_constraints`).
history : the verdict for a value never depends on what was validated before (equal-but-differently-typed values such as
          True / 1 / 1.0, sequences of calls)
groups  : check_groups on group lists whose members are symbolic integers in [-1, d]: accepted <=> all members in range and
          pairwise distinct; the result is the input followed by the missing singletons (a partition); plus a concrete
          exhaustive sweep for d <= 4
misc    : feature_mask length, 2*min_samples_leaf > min_samples_split, GEMINI registry names, unknown options / wrong types,
          unfitted predict / score / print, malformed X, no fitted model after a failed fit (concrete, public API)
"""
from __future__ import annotations

import itertools
import time
import warnings
from fractions import Fraction

import numpy as np

from symx import core, harness, loader, runner, npx
from symx.core import K, to_rat
from symx.explore import Explorer, PathError
from .c05 import partitions

PROP = "C16"

# documented domains: (kind, lower bound, lower closed?, None allowed?)      upper bounds: only epsilon (0,1)
INT, REAL = "int", "real"
COMMON = {"n_clusters": (INT, 1, True, False), "max_iter": (INT, 1, True, False), "learning_rate": (REAL, 0, False, False),
          "batch_size": (INT, 1, True, True), "random_state": (INT, 0, True, True)}
ESTIMATORS = {
    "linear._linear_geminis:LinearModel": {}, "linear._linear_geminis:LinearMMD": {}, "linear._linear_geminis:LinearWasserstein": {},
    "linear._linear_geminis:RIM": {"reg": (REAL, 0, True, False)}, "linear._linear_geminis:KernelRIM": {"reg": (REAL, 0, True, False)},
    "mlp._mlp_geminis:MLPModel": {"n_hidden_dim": (INT, 1, True, False)}, "mlp._mlp_geminis:MLPMMD": {"n_hidden_dim": (INT, 1, True, False)},
    "mlp._mlp_geminis:MLPWasserstein": {"n_hidden_dim": (INT, 1, True, False)},
    "sparse._linear_sparse:SparseLinearModel": {"alpha": (REAL, 0, True, False)}, "sparse._linear_sparse:SparseLinearMMD": {"alpha": (REAL, 0, True, False)},
    "sparse._linear_sparse:SparseLinearMI": {"alpha": (REAL, 0, True, False)},
    "sparse._mlp_sparse:SparseMLPModel": {"alpha": (REAL, 0, True, False), "M": (REAL, 0, True, False), "n_hidden_dim": (INT, 1, True, False)},
    "sparse._mlp_sparse:SparseMLPMMD": {"alpha": (REAL, 0, True, False), "M": (REAL, 0, True, False), "n_hidden_dim": (INT, 1, True, False)},
    "nonparametric._categorical_models:CategoricalModel": {}, "nonparametric._categorical_models:CategoricalMMD": {},
    "nonparametric._categorical_models:CategoricalWasserstein": {},
    "tree.douglas:Douglas": {"n_cuts": (INT, 1, True, True), "temperature": (REAL, 0, False, False)},
}
KAURI = {"max_clusters": (INT, 1, True, False), "max_depth": (INT, 1, True, True), "min_samples_split": (INT, 2, True, False),
         "min_samples_leaf": (INT, 1, True, False), "max_features": (INT, 1, True, True), "max_leaves": (INT, 2, True, True)}
GEMINIS = ["KLGEMINI", "TVGEMINI", "HellingerGEMINI", "ChiSquareGEMINI", "MMDGEMINI", "WassersteinGEMINI", "MI"]


def _new():
    return {"paths": 0, "queries": 0, "obligations": [], "violations": [], "validated": 0, "witnesses": 0, "samples": []}


def _patch_sklearn_isnan():
    import sklearn.utils._param_validation as pv
    pv.np = npx.NPX          # np.isnan(<symbolic real>) -> False ; everything else is real NumPy


def _in_domain_sym(val, spec):
    kind, lo, closed, none_ok = spec
    b = (val >= lo) if closed else (val > lo)
    return bool(b)


def job_numeric(target, pname, spec, no_batch=False):
    """target 'module:Class' (estimator, validated through _validate_params) -- symbolic value for one hyper-parameter"""
    loader.install()
    _patch_sklearn_isnan()
    res = _new()
    modname, cname = target.split(":")
    kind, lo, closed, none_ok = spec
    box = {}

    def setup():
        mod = loader.load(modname)
        cls = getattr(mod, cname)
        val = core.SymInt("v", lo - 2, lo + 3) if kind == INT else core.var("v")
        est = cls(**{pname: val})
        box.update(est=est, val=val)
        return est

    def body(est):
        try:
            est._validate_params()
            accepted = True
            err = None
        except Exception as e:
            accepted = False
            err = e
        return accepted, err, _in_domain_sym(box["val"], spec)

    ex = Explorer(max_paths=200)
    seen = False
    for out, pc, trace in ex.run(body, setup):
        res["paths"] += 1
        tag = f"numeric/{cname}.{pname}/path{res['paths']}"
        if isinstance(out, PathError):
            res["obligations"].append({"name": tag + "/path-error", "verdict": "inconclusive", "how": repr(out)[:300]})
            continue
        accepted, err, want = out
        okerr = accepted or isinstance(err, (ValueError, TypeError))
        ok = accepted == want and okerr
        v, model = harness.reachable(list(ex.pc), timeout_s=5.0)
        res["queries"] += 1
        if v == "unsat":
            continue
        o = {"name": tag + f"/accepted <=> {pname} {'>=' if closed else '>'} {lo}", "verdict": "unsat" if ok else "sat", "how": "path-evaluation", "accepted": accepted}
        res["obligations"].append(o)
        if not ok:
            value = (model or {}).get("v")
            rep = {"kind": "numeric", "target": target, "param": pname, "value": str(value), "int": kind == INT, "spec": [kind, lo, closed, none_ok]}
            if v == "sat" and value is not None and replay(rep):
                if not seen:
                    seen = True
                    res["violations"].append({"signature": f"{PROP}:numeric:{cname}.{pname}", "what": f"{cname}: {pname}={value} is {'accepted' if accepted else 'rejected'} although the documented domain is {pname} {'>=' if closed else '>'} {lo}", "replay": rep})
            else:
                o["verdict"] = "inconclusive"
    # None
    mod = loader.real(modname)
    try:
        getattr(mod, cname)(**{pname: None})._validate_params()
        acc = True
    except Exception:
        acc = False
    okn = acc == none_ok
    res["obligations"].append({"name": f"numeric/{cname}.{pname}/None accepted == {none_ok}", "verdict": "unsat" if okn else "sat", "how": "concrete"})
    if not okn:
        res["violations"].append({"signature": f"{PROP}:numeric:{cname}.{pname}:None", "what": f"{cname}: {pname}=None is {'accepted' if acc else 'rejected'} contrary to the documentation",
                                  "replay": {"kind": "numeric", "target": target, "param": pname, "value": "None", "int": False, "spec": [kind, lo, closed, none_ok]}})
    res["samples"].append({"param": f"{cname}.{pname}", "domain": f"{'>=' if closed else '>'} {lo}" + (" or None" if none_ok else "")})
    return res


def job_gemini_eps():
    loader.install()
    _patch_sklearn_isnan()
    res = _new()
    for cname in GEMINIS:
        box = {}

        def setup():
            gm = loader.load("gemini")
            v = core.var("v")
            box["v"] = v
            return gm, v

        def body(arg):
            gm, v = arg
            try:
                getattr(gm, cname)(epsilon=v)
                acc = True
            except (ValueError, TypeError):
                acc = False
            want = bool(v > 0) and bool(v < 1)
            return acc, want

        ex = Explorer(max_paths=50)
        for out, pc, trace in ex.run(body, setup):
            res["paths"] += 1
            if isinstance(out, PathError):
                res["obligations"].append({"name": f"epsilon/{cname}/path-error", "verdict": "sat", "how": repr(out)[:200]})
                continue
            acc, want = out
            v, model = harness.reachable(list(ex.pc), timeout_s=5.0)
            if v == "unsat":
                continue
            ok = acc == want
            o = {"name": f"epsilon/{cname}/path{res['paths']}/accepted <=> 0 < epsilon < 1", "verdict": "unsat" if ok else "sat", "how": "path-evaluation"}
            res["obligations"].append(o)
            if not ok:
                rep = {"kind": "epsilon", "cls": cname, "value": str((model or {}).get("v"))}
                if replay(rep):
                    res["violations"].append({"signature": f"{PROP}:epsilon:{cname}", "what": f"{cname}: epsilon={rep['value']} wrongly {'accepted' if acc else 'rejected'}", "replay": rep})
                else:
                    o["verdict"] = "inconclusive"
    return res


# ---- history independence and typed values (concrete, real modules) ------------------------------------------------------


def _verdict(fn):
    try:
        with warnings.catch_warnings():
            warnings.simplefilter("ignore")
            fn()
        return True
    except (ValueError, TypeError):
        return False


def _typed_cases():
    gm = loader.real("gemini")
    data = loader.real("data.synthetic_data")
    cases = []
    for cname in GEMINIS:
        cls = getattr(gm, cname)
        if cname != "MI":
            for v, want in [(True, True), (False, True), (1, False), (0, False), (1.0, False), (0.0, False), ("yes", False), (None, False)]:
                cases.append((f"{cname}(ovo={v!r})", (lambda cls=cls, v=v: cls(ovo=v)), want))
        for v, want in [(0.5, True), (1e-12, True), (0, False), (1, False), (0.0, False), (1.0, False), (True, False), (-0.1, False), (1.5, False), ("a", False), (None, False)]:
            if v is True:
                continue     # bool is a Real for isinstance: documented domain is float in (0,1); True == 1 is outside anyway
            cases.append((f"{cname}(epsilon={v!r})", (lambda cls=cls, v=v: cls(epsilon=v)), want))
    cases += [(f"MMDGEMINI(kernel={v!r})", (lambda v=v: gm.MMDGEMINI(kernel=v)), want) for v, want in
              [("linear", True), ("rbf", True), ("precomputed", True), ("nope", False), (3, False), (None, False), ((lambda X: X @ X.T), True)]]
    cases += [(f"WassersteinGEMINI(metric={v!r})", (lambda v=v: gm.WassersteinGEMINI(metric=v)), want) for v, want in
              [("euclidean", True), ("precomputed", True), ("nope", False), (3, False), (None, False)]]
    for v, want in [(5, True), (5.0, False), (0, False), (-1, False), ("5", False), (None, False)]:
        cases.append((f"celeux_one(n={v!r})", (lambda v=v: data.celeux_one(n=v, random_state=0)), want))
    for v, want in [(3, True), (0, False), (2.0, False)]:
        cases.append((f"celeux_one(p={v!r})", (lambda v=v: data.celeux_one(n=5, p=v, random_state=0)), want))
    for v, want in [(1.7, True), (1, True), (0, False), (-2.0, False), ("x", False)]:
        cases.append((f"celeux_one(mu={v!r})", (lambda v=v: data.celeux_one(n=5, mu=v, random_state=0)), want))
    for v, want in [(4, True), (3, False), (8.0, False)]:
        cases.append((f"gstm(n={v!r})", (lambda v=v: data.gstm(n=v, random_state=0)), want))
    for v, want in [(2, True), (0.5, True), (0, False), (-1, False)]:
        cases.append((f"gstm(alpha={v!r})", (lambda v=v: data.gstm(n=8, alpha=v, random_state=0)), want))
        cases.append((f"gstm(df={v!r})", (lambda v=v: data.gstm(n=8, df=v, random_state=0)), want))
    for v, want in [(1, True), (0, False), (2.5, False)]:
        cases.append((f"celeux_two(n={v!r})", (lambda v=v: data.celeux_two(n=v, random_state=0)), want))
    # real-valued hyper-parameters of the estimators: a positive value is in the domain whatever numeric type carries it
    lin = loader.real("linear._linear_geminis")
    sp_l, sp_m = loader.real("sparse._linear_sparse"), loader.real("sparse._mlp_sparse")
    dg = loader.real("tree.douglas")
    npm = loader.real("nonparametric._categorical_models")
    mlp = loader.real("mlp._mlp_geminis")
    reals = [("Douglas", dg.Douglas, "temperature"), ("RIM", lin.RIM, "reg"), ("KernelRIM", lin.KernelRIM, "reg"), ("SparseLinearMMD", sp_l.SparseLinearMMD, "alpha"),
             ("SparseMLPMMD", sp_m.SparseMLPMMD, "alpha"), ("SparseMLPMMD", sp_m.SparseMLPMMD, "M"), ("LinearModel", lin.LinearModel, "learning_rate"), ("Douglas", dg.Douglas, "learning_rate")]
    for cname, cls, pname in reals:
        for v in (0.5, 2.0, 1, np.int64(2), np.float32(0.5), np.float64(2.0)):
            cases.append((f"{cname}({pname}={type(v).__name__}:{v!r})", (lambda cls=cls, pname=pname, v=v: cls(**{pname: v})._validate_params()), True))
        for v in (-1.0, "a", None):
            cases.append((f"{cname}({pname}={v!r})", (lambda cls=cls, pname=pname, v=v: cls(**{pname: v})._validate_params()), False))
    # kernel / metric option sets of every convenience estimator: the documented names (scikit-learn's + 'precomputed'), nothing shorter
    from sklearn.metrics.pairwise import PAIRWISE_KERNEL_FUNCTIONS
    kern = [("LinearMMD", lin.LinearMMD), ("MLPMMD", mlp.MLPMMD), ("SparseLinearMMD", sp_l.SparseLinearMMD), ("SparseMLPMMD", sp_m.SparseMLPMMD), ("CategoricalMMD", npm.CategoricalMMD)]
    for cname, cls in kern:
        for v in sorted(PAIRWISE_KERNEL_FUNCTIONS) + ["precomputed"]:
            cases.append((f"{cname}(kernel={v!r})", (lambda cls=cls, v=v: cls(kernel=v)._validate_params()), True))
        for v in ("p", "d", "r", "precompute", "RBF", "", 3):
            cases.append((f"{cname}(kernel={v!r})", (lambda cls=cls, v=v: cls(kernel=v)._validate_params()), False))
    met = [("LinearWasserstein", lin.LinearWasserstein), ("MLPWasserstein", mlp.MLPWasserstein), ("CategoricalWasserstein", npm.CategoricalWasserstein)]
    for cname, cls in met:
        for v, want in [("euclidean", True), ("cosine", True), ("manhattan", True), ("precomputed", True), ("p", False), ("nope", False)]:
            cases.append((f"{cname}(metric={v!r})", (lambda cls=cls, v=v: cls(metric=v)._validate_params()), want))
    return cases


def job_history():
    res = _new()
    cases = _typed_cases()
    # each verdict in a FRESH order first, then after every other case of the same callable family, then reversed
    fresh = {}
    for name, fn, want in cases:
        fresh[name] = _verdict(fn)
    orders = [list(reversed(cases)), cases[::2] + cases[1::2], cases]
    later = {name: set() for name, _, _ in cases}
    for order in orders:
        for name, fn, want in order:
            later[name].add(_verdict(fn))
    bad_hist, bad_dom = [], []
    for name, fn, want in cases:
        stable = later[name] == {fresh[name]}
        res["obligations"].append({"name": f"history/{name}: same verdict whatever was validated before", "verdict": "unsat" if stable else "sat", "how": "concrete"})
        okd = fresh[name] == want
        res["obligations"].append({"name": f"domain/{name}: accepted == {want}", "verdict": "unsat" if okd else "sat", "how": "concrete"})
        if not stable:
            bad_hist.append(name)
        if not okd:
            bad_dom.append(name)
    if bad_hist:
        res["violations"].append({"signature": f"{PROP}:history-dependent-verdict", "what": f"the validation verdict depends on earlier calls (e.g. {bad_hist[0]})", "replay": {"kind": "history"}})
    for name in bad_dom[:6]:
        res["violations"].append({"signature": f"{PROP}:typed:{name.split('(')[0]}.{name.split('(')[1].split('=')[0]}", "what": f"{name} is wrongly {'accepted' if fresh[name] else 'rejected'}",
                                  "replay": {"kind": "typed", "name": name}})
    res["paths"] = len(cases) * 4
    res["samples"].append({"cases": len(cases), "orders": 4})
    return res


# ---- check_groups -------------------------------------------------------------------------------------------------------


def job_groups_symbolic(d, sizes):
    """sizes: tuple of group sizes, members are symbolic integers in [-1, d]"""
    loader.install()
    res = _new()
    sb = loader.load("sparse._base_sparse")
    box = {}

    def setup():
        groups = []
        c = 0
        for s in sizes:
            g = []
            for _ in range(s):
                g.append(core.SymInt(f"m{c}", -1, d))
                c += 1
            groups.append(g)
        box["groups"] = groups
        return groups

    def body(groups):
        members = [m for g in groups for m in g]
        vals = [m.concretise() for m in members]          # fork to concrete values: the oracle is stated on them
        try:
            out = sb.check_groups([list(g) for g in groups], d)
            acc = True
        except ValueError:
            out, acc = None, False
        want = all(0 <= v < d for v in vals) and len(set(vals)) == len(vals)
        part_ok = True
        if acc and want:
            cg = [[int(x) for x in g] for g in out]
            k = len(groups)
            it = iter(vals)
            orig = [[next(it) for _ in g] for g in groups]
            part_ok = cg[:k] == orig and sorted(x for g in cg for x in g) == list(range(d)) and all(len(g) == 1 for g in cg[k:])
        return acc, want, part_ok, vals

    ex = Explorer(max_paths=60000, max_depth=400)
    seen = set()
    for out, pc, trace in ex.run(body, setup):
        res["paths"] += 1
        if isinstance(out, PathError):
            res["obligations"].append({"name": f"groups/d{d}/{sizes}/path-error", "verdict": "sat", "how": repr(out)[:200]})
            sig = f"{PROP}:check_groups:raises-other"
            if sig not in seen:
                seen.add(sig)
                res["violations"].append({"signature": sig, "what": f"check_groups raises {type(out.exc).__name__} instead of accepting or rejecting with ValueError", "replay": {"kind": "groups", "d": d, "groups": None}})
            continue
        acc, want, part_ok, vals = out
        ok = acc == want and part_ok
        res["obligations"].append({"name": f"groups/d{d}/{sizes}/{vals}: accepted <=> in range and distinct; completed to a partition", "verdict": "unsat" if ok else "sat", "how": "path-evaluation"})
        if not ok:
            it = iter(vals)
            gl = [[next(it) for _ in range(s)] for s in sizes]
            sig = f"{PROP}:check_groups:{'accepts-invalid' if acc and not want else 'rejects-valid' if want and not acc else 'bad-completion'}"
            rep = {"kind": "groups", "d": d, "groups": gl}
            if sig not in seen and replay(rep):
                seen.add(sig)
                res["violations"].append({"signature": sig, "what": f"check_groups({gl}, {d}) is wrongly {'accepted' if acc else 'rejected'}" if acc != want else f"check_groups({gl}, {d}) is not completed into a partition", "replay": rep})
    if ex.truncated:
        res["obligations"].append({"name": f"groups/d{d}/{sizes}/exploration", "verdict": "unknown", "how": "path budget exhausted"})
    res["samples"].append({"d": d, "group_sizes": list(sizes), "paths": res["paths"]})
    return res


def _groups_oracle(gl, d):
    flat = [x for g in gl for x in g]
    return all(0 <= v < d for v in flat) and len(set(flat)) == len(flat)


def job_groups_concrete(d, max_groups=3, max_size=3):
    res = _new()
    sb = loader.real("sparse._base_sparse")
    vals = list(range(-1, d + 1))
    n = 0
    bad = {}
    sizes_list = [s for k in range(1, max_groups + 1) for s in itertools.product(range(1, max_size + 1), repeat=k) if sum(s) <= d + 1]
    for sizes in sizes_list:
        for flat in itertools.product(vals, repeat=sum(sizes)):
            it = iter(flat)
            gl = [[next(it) for _ in range(s)] for s in sizes]
            n += 1
            try:
                out = sb.check_groups([list(g) for g in gl], d)
                acc = True
            except ValueError:
                acc, out = False, None
            except Exception:
                acc, out = None, None
            want = _groups_oracle(gl, d)
            ok = acc == want and (not acc or (sorted(x for g in out for x in g) == list(range(d)) and [list(g) for g in out[:len(gl)]] == gl))
            if not ok:
                kind = "accepts-invalid" if acc and not want else "rejects-valid" if want and acc is False else "bad-completion" if acc else "raises-other"
                bad.setdefault(kind, gl)
    res["paths"] = n
    res["obligations"].append({"name": f"check_groups exhaustive d={d}: {n} group lists, accepted <=> in range and pairwise distinct", "verdict": "unsat" if not bad else "sat", "how": "concrete-exhaustive"})
    for kind, gl in bad.items():
        res["violations"].append({"signature": f"{PROP}:check_groups:{kind}", "what": f"check_groups({gl}, {d}): {kind}", "replay": {"kind": "groups", "d": d, "groups": gl}})
    res["samples"].append({"d": d, "lists": n})
    return res


# ---- misc (public API, concrete) ------------------------------------------------------------------------------------------


def job_misc():
    res = _new()
    lin = loader.real("linear._linear_geminis")
    tree = loader.real("tree.kauri")
    dg = loader.real("tree.douglas")
    sp = loader.real("sparse._linear_sparse")
    gu = loader.real("gemini._utils")
    mc = loader.real("mlcl")
    rng = np.random.RandomState(0)
    X = rng.normal(size=(8, 3))
    checks = []

    def rejects(fn):
        return not _verdict(fn)

    def unfitted(est):
        # no fitted MODEL: the input description scikit-learn's validate_data records (n_features_in_, feature_names_in_) is not one
        return not any(k.endswith("_") and not k.startswith("__") and k not in ("n_features_in_", "feature_names_in_") for k in vars(est))
    # inconsistent combinations
    k = tree.Kauri(min_samples_leaf=2, min_samples_split=3)
    checks.append(("Kauri: 2*min_samples_leaf > min_samples_split rejected", rejects(lambda: k.fit(X))))
    checks.append(("Kauri: the rejected estimator is left without fitted attributes (no tree_, labels_, ...)", unfitted(k)))
    for leaf, split in [(3, 4), (3, 5), (2, 2)]:
        k2 = tree.Kauri(min_samples_leaf=leaf, min_samples_split=split)
        checks.append((f"Kauri(min_samples_leaf={leaf}, min_samples_split={split}) rejected and left unfitted", rejects(lambda k2=k2: k2.fit(X)) and unfitted(k2)))
    checks.append(("Kauri: 2*min_samples_leaf == min_samples_split accepted", _verdict(lambda: tree.Kauri(min_samples_leaf=2, min_samples_split=4).fit(X))))
    for L, want in [(2, False), (3, True), (4, False)]:
        d = dg.Douglas(n_clusters=2, feature_mask=np.array([True] * L), max_iter=1, gemini="mi")
        ok = _verdict(lambda: d.fit(X))
        checks.append((f"Douglas: feature_mask of length {L} for 3 features {'accepted' if want else 'rejected'}", ok == want and (want or unfitted(d))))
    for name in gu.AVAILABLE_GEMINIS:
        checks.append((f"registry name {name!r} accepted", _verdict(lambda name=name: gu._str_to_gemini(name))))
    near = ["kl", "mmd", "MI", "", "wasserstein"] + [f"{a}{sep}{b}" for a in ("mi", "kl", "tv", "mmd", "chi2", "hellinger", "wasserstein") for sep in ("_", "-", "") for b in ("ova", "ovo", "", "ovr")]
    for name in sorted(set(near) - set(DOCUMENTED_GEMINIS)):
        checks.append((f"registry name {name!r} rejected", rejects(lambda name=name: gu._str_to_gemini(name))))
    # unknown options / wrong types on estimators, and no fitted model afterwards
    for kw in (dict(solver="lbfgs"), dict(gemini="nope"), dict(n_clusters=2.0), dict(n_clusters="3"), dict(max_iter=0), dict(learning_rate=0), dict(batch_size=0), dict(verbose=1)):
        est = lin.LinearModel(**kw)
        checks.append((f"LinearModel({kw}) rejected at fit and left unfitted", rejects(lambda: est.fit(X)) and not hasattr(est, "labels_") and not hasattr(est, "W_")))
    est = sp.SparseLinearModel(groups=[[0, 1], [1, 2]], max_iter=1)
    checks.append(("SparseLinearModel with overlapping groups rejected and left unfitted", rejects(lambda: est.fit(X)) and not hasattr(est, "labels_")))
    est = sp.SparseLinearModel(groups=[[0, 3]], max_iter=1)
    checks.append(("SparseLinearModel with a group leaving the feature range rejected", rejects(lambda: est.fit(X)) and not hasattr(est, "labels_")))
    # malformed data
    for nm, bad in [("NaN", np.where(np.arange(24).reshape(8, 3) == 5, np.nan, X)), ("inf", np.where(np.arange(24).reshape(8, 3) == 5, np.inf, X)), ("1-d", X[:, 0]),
                    ("empty", np.zeros((0, 3))), ("strings", np.array([["a", "b"], ["c", "d"], ["e", "f"]])), ("fewer samples than clusters", X[:2])]:
        for mk in (lambda: lin.LinearModel(n_clusters=3, max_iter=1), lambda: tree.Kauri(max_clusters=3, min_samples_leaf=3) if nm == "fewer samples than clusters" else tree.Kauri()):
            est = mk()
            checks.append((f"{type(est).__name__}: {nm} data rejected, no fitted model", rejects(lambda: est.fit(bad)) and not hasattr(est, "labels_")))
    # unfitted use
    for est in (lin.LinearModel(), tree.Kauri(), dg.Douglas()):
        checks.append((f"{type(est).__name__}: predict before fit raises", rejects(lambda: est.predict(X))))
        checks.append((f"{type(est).__name__}: score before fit raises", rejects(lambda: est.score(X))))
    checks.append(("print_kauri_tree before fit raises", rejects(lambda: tree.print_kauri_tree(tree.Kauri()))))
    checks.append(("Douglas.find_active_points before fit raises", rejects(lambda: dg.Douglas().find_active_points(X))))
    # mlcl inputs
    for nm, kw in [("scalar", dict(must_link=3)), ("flat list", dict(must_link=[0, 1])), ("single column", dict(must_link=[[0], [1]])), ("self pair", dict(cannot_link=[[1, 1]])),
                   ("factor 0", dict(must_link=[[0, 1]], factor=0)), ("negative factor", dict(must_link=[[0, 1]], factor=-1.0)), ("foreign model", None)]:
        if kw is None:
            checks.append(("add_mlcl_constraint: foreign model rejected", rejects(lambda: mc.add_mlcl_constraint(tree.Kauri(), must_link=[[0, 1]]))))
        else:
            checks.append((f"add_mlcl_constraint: {nm} rejected", rejects(lambda kw=kw: mc.add_mlcl_constraint(lin.LinearModel(), **kw))))
    checks.append(("add_mlcl_constraint: valid pairs accepted", _verdict(lambda: mc.add_mlcl_constraint(lin.LinearModel(), must_link=[[0, 1]], cannot_link=[[2, 3]], factor=0.5))))
    for nm, ok in checks:
        res["obligations"].append({"name": "misc/" + nm, "verdict": "unsat" if ok else "sat", "how": "concrete"})
        if not ok:
            res["violations"].append({"signature": f"{PROP}:misc:{nm.split(':')[0].split('(')[0].strip()}:{abs(hash(nm)) % 10 ** 6}", "what": nm + " -- violated", "replay": {"kind": "misc", "name": nm}})
    res["paths"] = len(checks)
    res["samples"].append({"checks": len(checks)})
    return res


def job_crosshair(timeout_per_condition=40):
    """second engine (CrossHair 0.0.110, symbolic execution of Python with z3): contracts on the real check_groups / registry.
    'Confirmed over all paths' is a discharge; a counterexample is replayed through the concrete oracle; anything else is inconclusive."""
    import os, re, subprocess, sys
    res = _new()
    here = os.path.dirname(os.path.dirname(os.path.abspath(__file__)))
    f = os.path.join(here, "xhair", "ch_check_groups.py")
    env = dict(os.environ)
    env.setdefault("SYMX_REPO", loader.REPO)
    try:
        p = subprocess.run([sys.executable, "-m", "crosshair", "check", "--report_all", "--per_condition_timeout", str(timeout_per_condition), f],
                           capture_output=True, text=True, timeout=timeout_per_condition * 4 + 60, env=env, cwd="/")
        out = p.stdout + p.stderr
    except Exception as e:
        out = f"crosshair could not run: {e}"
    lines_src = open(f).read().split("\n")
    names = {}
    for i, l in enumerate(lines_src, 1):
        if l.startswith("def groups_accept_iff_valid"):
            names[i] = "check_groups([[a,b],[c]], d): accepted <=> in range and pairwise distinct; completed to a partition"
        if l.startswith("def registry_accept_iff_listed"):
            names[i] = "_str_to_gemini(name): accepted <=> name is a registry name"
    seen_lines = set()
    for line in out.splitlines():
        m = re.search(r"ch_check_groups.py:(\d+): (\w+): (.*)", line)
        if not m:
            continue
        ln, level, msg = int(m.group(1)), m.group(2), m.group(3)
        key = max([k for k in names if k <= ln], default=None)
        nm = names.get(key, f"line {ln}")
        seen_lines.add(key)
        if "Confirmed over all paths" in msg:
            res["obligations"].append({"name": "crosshair/" + nm, "verdict": "unsat", "how": "crosshair: confirmed over all paths"})
        elif level == "error" and "when calling" in msg:
            o = {"name": "crosshair/" + nm, "verdict": "sat", "how": msg[:200]}
            res["obligations"].append(o)
            mm = re.search(r"groups_accept_iff_valid\(a\s*=\s*(-?\d+),\s*b\s*=\s*(-?\d+),\s*c\s*=\s*(-?\d+),\s*d\s*=\s*(-?\d+)\)", msg) or \
                re.search(r"groups_accept_iff_valid\((-?\d+),\s*(-?\d+),\s*(-?\d+),\s*(-?\d+)\)", msg)
            if mm:
                a, b, c, d = map(int, mm.groups())
                rep = {"kind": "groups", "d": d, "groups": [[a, b], [c]]}
                if replay(rep):
                    want = _groups_oracle(rep["groups"], d)
                    res["violations"].append({"signature": f"{PROP}:check_groups:{'rejects-valid' if want else 'accepts-invalid'}", "what": f"CrossHair: check_groups({rep['groups']}, {d}) decided wrongly", "replay": rep})
                else:
                    o["verdict"] = "inconclusive"
            else:
                mr = re.search(r"registry_accept_iff_listed\((?:name\s*=\s*)?(\'(?:[^\'\\]|\\.)*\'|\"(?:[^\"\\]|\\.)*\")\)", msg)
                rep = None
                if mr:
                    import ast
                    try:
                        rep = {"kind": "registry", "name": ast.literal_eval(mr.group(1))}
                    except Exception:
                        rep = None
                if rep is not None and replay(rep):
                    res["violations"].append({"signature": f"{PROP}:registry:{'accepts-unlisted' if rep['name'] not in DOCUMENTED_GEMINIS else 'rejects-listed'}",
                                              "what": f"CrossHair: _str_to_gemini({rep['name']!r}) decided wrongly (documented names: {sorted(DOCUMENTED_GEMINIS)})", "replay": rep})
                else:
                    o["verdict"] = "inconclusive"
        else:
            res["obligations"].append({"name": "crosshair/" + nm, "verdict": "unknown", "how": msg[:200]})
    for key, nm in names.items():
        if key not in seen_lines:
            res["obligations"].append({"name": "crosshair/" + nm, "verdict": "unknown", "how": "no verdict reported: " + out[-200:]})
    res["paths"] = 2
    res["samples"].append({"tool": "crosshair-tool 0.0.110", "output": out.splitlines()[-4:]})
    return res


DOCUMENTED_GEMINIS = {"mmd_ova", "mmd_ovo", "wasserstein_ova", "wasserstein_ovo", "kl_ova", "kl_ovo", "mi", "tv_ova", "tv_ovo",
                      "hellinger_ova", "hellinger_ovo", "chi2_ova", "chi2_ovo"}


def replay(rep, verbose=False):
    kind = rep["kind"]
    if kind == "registry":
        gu = loader.real("gemini._utils")
        try:
            g = gu._str_to_gemini(rep["name"])
            acc = g is not None
        except ValueError:
            acc = False
        if verbose:
            print(f"_str_to_gemini({rep['name']!r}) {'accepted' if acc else 'rejected'}; documented: {rep['name'] in DOCUMENTED_GEMINIS}")
        return acc != (rep["name"] in DOCUMENTED_GEMINIS)
    if kind == "groups":
        if rep["groups"] is None:
            return True
        sb = loader.real("sparse._base_sparse")
        gl, d = rep["groups"], rep["d"]
        try:
            out = sb.check_groups([list(g) for g in gl], d)
            acc = True
        except ValueError:
            acc, out = False, None
        want = _groups_oracle(gl, d)
        if verbose:
            print(f"check_groups({gl}, {d}) -> {'accepted ' + str(out) if acc else 'rejected'}; documented: {'valid' if want else 'invalid'}")
        return acc != want or (acc and sorted(x for g in out for x in g) != list(range(d)))
    if kind == "numeric":
        modname, cname = rep["target"].split(":")
        cls = getattr(loader.real(modname), cname)
        k, lo, closed, none_ok = rep["spec"]
        if rep["value"] == "None":
            return _verdict(lambda: cls(**{rep["param"]: None})._validate_params()) != none_ok
        val = Fraction(rep["value"])
        v = int(val) if rep["int"] else float(val)
        acc = _verdict(lambda: cls(**{rep["param"]: v})._validate_params())
        want = (v >= lo) if closed else (v > lo)
        if verbose:
            print(f"{cname}({rep['param']}={v}) -> {'accepted' if acc else 'rejected'}; documented domain says {'valid' if want else 'invalid'}")
        return acc != want
    if kind == "epsilon":
        gm = loader.real("gemini")
        v = float(Fraction(rep["value"]))
        return _verdict(lambda: getattr(gm, rep["cls"])(epsilon=v)) != (0 < v < 1)
    if kind == "history":
        return bool(job_history()["violations"])
    if kind == "typed":
        return any(v["replay"].get("name") == rep["name"] for v in job_history()["violations"])
    if kind == "misc":
        return any(v["replay"].get("name") == rep["name"] for v in job_misc()["violations"])
    raise ValueError(kind)


def jobs(tier):
    q = tier == "quick"
    out = []
    for target, extra in ESTIMATORS.items():
        spec = dict(COMMON)
        spec.update(extra)
        if "Categorical" in target:
            spec.pop("batch_size")
        if q and target.split(":")[1] not in ("LinearModel", "RIM", "KernelRIM", "MLPModel", "SparseLinearModel", "SparseMLPModel", "CategoricalModel", "Douglas"):
            spec = {k: v for k, v in spec.items() if k in extra or k == "n_clusters"}     # inherited constraints: one witness per subclass in the quick tier
        for pname, sp in spec.items():
            out.append({"name": f"numeric/{target.split(':')[1]}.{pname}", "target": "checks.c16:job_numeric", "kwargs": dict(target=target, pname=pname, spec=sp), "timeout": 120})
    for pname, sp in KAURI.items():
        out.append({"name": f"numeric/Kauri.{pname}", "target": "checks.c16:job_numeric", "kwargs": dict(target="tree.kauri:Kauri", pname=pname, spec=sp), "timeout": 120})
    out.append({"name": "epsilon", "target": "checks.c16:job_gemini_eps", "kwargs": {}, "timeout": 200})
    out.append({"name": "history", "target": "checks.c16:job_history", "kwargs": {}, "timeout": 280})
    out.append({"name": "misc", "target": "checks.c16:job_misc", "kwargs": {}, "timeout": 280})
    out.append({"name": "crosshair", "target": "checks.c16:job_crosshair", "kwargs": dict(timeout_per_condition=40 if q else 120), "timeout": 400 if q else 900})
    for d, sizes in [(2, (1, 1)), (2, (2,)), (3, (2, 1)), (3, (1, 1, 1))] + ([] if q else [(3, (2, 2)), (3, (3,)), (4, (2, 1, 1)), (3, (1, 2, 1))]):
        out.append({"name": f"groups-symbolic/d{d}/{sizes}", "target": "checks.c16:job_groups_symbolic", "kwargs": dict(d=d, sizes=sizes), "timeout": 280 if q else 1800})
    for d in ([2, 3] if q else [2, 3, 4]):
        out.append({"name": f"groups-exhaustive/d{d}", "target": "checks.c16:job_groups_concrete", "kwargs": dict(d=d, max_groups=3, max_size=3 if d < 4 else 2), "timeout": 280 if q else 1800})
    return out


def run(tier, seed, only=None, nproc=None):
    t0 = time.time()
    js = [j for j in jobs(tier) if not only or only in j["name"]]
    pairs = runner.run_jobs(js, nproc=nproc, seed=seed)
    return runner.finish(
        PROP, tier, seed, pairs, t0,
        assumptions=["documented domains transcribed in this file (not read from _parameter_constraints)",
                     "integers explored symbolically in [lo-2, lo+3], reals over the whole line (every comparison of the real validator forked)",
                     "bool-for-int and similar Python sub-typing corner cases of integer parameters are not judged"],
        bounds={"tier": tier, "jobs": len(js)})
