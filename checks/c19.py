"""C19 -- the printed KAURI tree is a faithful description of the fitted tree.

Every binary tree shape with <= 4 leaves is built through the REAL ``Tree._add_child`` (features from 3 columns, thresholds
including 0.0, negative and repeated values, targets from 3 clusters).  The REAL ``print_kauri_tree`` output is captured,
read back by an independent recursive-descent reader of the `Node k / |=name <= t / |=name > t / Cluster: c` layout, and
the rules are applied to a fresh SYMBOLIC point (every `<=` a decision): on every feasible path the cluster read from the
text must equal the real ``Tree.predict`` on that point.  Feature names: a full-length list labels feature f with
names[f]; too few names, unfitted and foreign objects are refused.
"""
from __future__ import annotations

import contextlib
import io
import itertools
import re
import time

import numpy as np

from symx import core, harness, loader, runner
from symx.explore import Explorer, PathError

PROP = "C19"


def shapes(L):
    """all binary tree shapes with L leaves as nested tuples; a leaf is ()"""
    if L == 1:
        return [()]
    out = []
    for l in range(1, L):
        for a in shapes(l):
            for b in shapes(L - l):
                out.append((a, b))
    return out


def n_internal(shape):
    return 0 if shape == () else 1 + n_internal(shape[0]) + n_internal(shape[1])


def _preorder(shape):
    """[(path, is_leaf)] in pre-order; a path is a tuple of 0/1 (left/right) from the root"""
    out = []

    def walk(sh, path):
        out.append((path, sh == ()))
        if sh != ():
            walk(sh[0], path + (0,))
            walk(sh[1], path + (1,))
    walk(shape, ())
    return out


def split_orders(shape, limit=None):
    """every order in which the internal nodes can have been split (a parent before its children), as lists of pre-order indices
    of internal nodes; the first one is the pre-order itself.  Kauri grows best-gain-first, so any of them occurs."""
    nodes = [p for p, leaf in _preorder(shape) if not leaf]
    idx = {p: i for i, p in enumerate(nodes)}
    out = []

    def rec(done, avail, acc):
        if limit is not None and len(out) >= limit:
            return
        if not avail:
            out.append(list(acc))
            return
        for p in sorted(avail, key=lambda q: idx[q]):
            nxt = set(avail)
            nxt.discard(p)
            for c in (p + (0,), p + (1,)):
                if c in idx:
                    nxt.add(c)
            rec(done | {p}, nxt, acc + [idx[p]])
    if nodes:
        rec(frozenset(), {()}, [])
    else:
        out.append([])
    return out


def build_tree(kmod, U, shape, feats, thrs, targets, order=None):
    """real Tree grown with _add_child.  Internal nodes take feats/thrs and leaves take targets in PRE-ORDER of the shape, whatever
    the order (a list of pre-order indices of internal nodes, default: pre-order) in which the splits are performed -- node ids, and
    with them the layout of the Tree arrays, depend on that order, the function the tree computes does not."""
    t = kmod.Tree()
    pre = _preorder(shape)
    internal = [p for p, leaf in pre if not leaf]
    leaves = [p for p, leaf in pre if leaf]
    f_of = {p: (feats[i], thrs[i]) for i, p in enumerate(internal)}
    c_of = {p: targets[i] for i, p in enumerate(leaves)}
    node_of = {(): 0}
    for k in (order if order is not None else range(len(internal))):
        p = internal[k]
        node = node_of[p]
        f, thr = f_of[p]
        sp = U.Split(1.0, 0, 7, 8, f, thr, False)     # 7/8: stale targets of internal children must never be printed as clusters
        t._add_child(node, sp)
        node_of[p + (0,)] = t.children_left[node]
        node_of[p + (1,)] = t.children_right[node]
    for p in leaves:
        t.target[node_of[p]] = c_of[p]
    return t


class ParseError(Exception):
    pass


def read_back(text, name_to_feature):
    """independent reader of the printed layout -> nested rules ('leaf', c) | ('node', f, thr, left, right)"""
    lines = [l for l in text.split("\n") if l.strip() != ""]
    pos = [0]

    def strip_depth(line, depth):
        pre = "| " * depth
        if not line.startswith(pre):
            raise ParseError(f"indentation: expected depth {depth}: {line!r}")
        return line[len(pre):]

    def node(depth):
        if pos[0] >= len(lines):
            raise ParseError("unexpected end")
        head = strip_depth(lines[pos[0]], depth)
        if not re.fullmatch(r"Node \d+", head.strip()):
            raise ParseError(f"expected 'Node k': {lines[pos[0]]!r}")
        pos[0] += 1
        body = strip_depth(lines[pos[0]], depth)
        m = re.fullmatch(r"\s*Cluster: (-?\d+)", body)
        if m:
            pos[0] += 1
            return ("leaf", int(m.group(1)))
        m = re.fullmatch(r"\|=(.*) <= (\S+)", body)
        if not m:
            raise ParseError(f"expected a rule or a cluster: {lines[pos[0]]!r}")
        name, thr = m.group(1), float(m.group(2))
        pos[0] += 1
        left = node(depth + 1)
        body2 = strip_depth(lines[pos[0]], depth)
        m2 = re.fullmatch(r"\|=(.*) > (\S+)", body2)
        if not m2 or m2.group(1) != name or float(m2.group(2)) != thr:
            raise ParseError(f"expected the complementary rule of {name} <= {thr}: {lines[pos[0]]!r}")
        pos[0] += 1
        right = node(depth + 1)
        if name not in name_to_feature:
            raise ParseError(f"unknown feature name {name!r}")
        return ("node", name_to_feature[name], thr, left, right)
    rules = node(0)
    if pos[0] != len(lines):
        raise ParseError("trailing lines")
    return rules


def apply_rules(rules, x):
    while rules[0] == "node":
        _, f, thr, l, r = rules
        rules = l if bool(x[f] <= thr) else r
    return rules[1]


# thresholds are data values: doubles whose shortest repr needs 17 significant digits, small and large magnitudes, neighbours
AWKWARD = [-0.024393796838145684, 0.30000000000000004, 1.0000000000000002e-05, float(np.nextafter(-0.024393796838145684, 1.0)), 123456.78901234567]


def job(L, name_mode, timeout_q=5.0):
    loader.install()
    res = {"paths": 0, "queries": 0, "obligations": [], "violations": [], "validated": 0, "witnesses": 0, "samples": [], "trees": 0}
    kmod = loader.load("tree.kauri")
    U = loader.load("tree._utils")
    d = 3
    thr_pool = [0.0, -1.5, 2.0, 0.0, 3.25]
    seen = set()
    for shape in shapes(L):
        ni = n_internal(shape)
        orders = split_orders(shape)
        for feats in itertools.product(range(d), repeat=ni):
            for toff in range(3):
                thrs = [thr_pool[(i + toff * 2) % len(thr_pool)] for i in range(ni)] if toff < 2 else [AWKWARD[i % len(AWKWARD)] for i in range(ni)]
                targets = [(i + toff) % 3 for i in range(L)]
                # every split order for one threshold set, the pre-order for the others
                for oi, order in enumerate(orders if toff == 0 else orders[:1]):
                    res["trees"] += 1
                    tag = f"L{L}/{name_mode}/shape{shapes(L).index(shape)}/f{''.join(map(str, feats))}/t{toff}" + (f"/order{oi}" if oi else "")
                    _check_tree(res, seen, kmod, U, d, shape, feats, thrs, targets, order, name_mode, tag, timeout_q)
    return res


def _check_tree(res, seen, kmod, U, d, shape, feats, thrs, targets, order, name_mode, tag, timeout_q):
    box = {}

    def setup():
        tr = build_tree(kmod, U, shape, feats, thrs, targets, order=order)
        mdl = kmod.Kauri()
        mdl.tree_ = tr
        mdl.labels_ = np.zeros(1, dtype=int)
        mdl.n_features_in_ = d
        box["mdl"] = mdl
        return mdl

    def body(mdl):
        if name_mode == "default":
            names, n2f = None, {f"X[:, {f}]": f for f in range(d)}
        else:
            names = [f"feat_{chr(97 + f)}" for f in range(d)]
            n2f = {nm: f for f, nm in enumerate(names)}
        # an earlier call in the same process, with OTHER names (or none): nothing of it may show in this call's output
        other = [f"other_{chr(120 + f)}" for f in range(d)] if name_mode == "default" else None
        with contextlib.redirect_stdout(io.StringIO()):
            kmod.print_kauri_tree(mdl, feature_names=other)
            if name_mode != "default":
                kmod.print_kauri_tree(mdl, feature_names=[f"earlier_{f}" for f in range(d)])
        buf = io.StringIO()
        with contextlib.redirect_stdout(buf):
            kmod.print_kauri_tree(mdl, feature_names=names)
        text = buf.getvalue()
        rules = read_back(text, n2f)
        x = np.empty((1, d), dtype=object)
        for f in range(d):
            x[0, f] = core.var(f"q_{f}")
        pred = int(np.asarray(mdl.tree_.predict(x))[0])
        got = apply_rules(rules, x[0])
        return pred, got, text

    ex = Explorer(max_paths=200)
    for out, pc, trace in ex.run(body, setup):
        res["paths"] += 1
        if isinstance(out, PathError):
            bad, how = True, repr(out)[:200]
            text = ""
        else:
            pred, got, text = out
            bad, how = pred != got, f"predict={pred} text={got}"
        res["obligations"].append({"name": f"{tag}/path{res['paths']}/text == predict", "verdict": "sat" if bad else "unsat", "how": "path-evaluation" if not bad else how})
        if bad:
            v, model = harness.reachable(pc, timeout_s=timeout_q)
            res["queries"] += 1
            rep = {"kind": "tree", "shape": _shape_json(shape), "feats": list(feats), "thrs": thrs, "targets": targets, "name_mode": name_mode, "order": order,
                   "point": [float(model.get(f"q_{f}", 0)) for f in range(d)] if model else [0.0] * d}
            sig = f"{PROP}:unfaithful:{name_mode}"
            if v == "sat" and sig not in seen and replay(rep):
                seen.add(sig)
                res["violations"].append({"signature": sig, "what": "the printed tree, read back, assigns a point a different cluster than predict" +
                                          (" (user feature names)" if name_mode != "default" else ""), "replay": rep})
            elif sig not in seen:
                res["obligations"][-1]["verdict"] = "inconclusive"
        if len(res["samples"]) < 1 and text:
            res["samples"].append({"tree": tag, "printed": text.split("\n")[:12]})


def _shape_json(shape):
    return [] if shape == () else [_shape_json(shape[0]), _shape_json(shape[1])]


def _shape_from(j):
    return () if j == [] else (_shape_from(j[0]), _shape_from(j[1]))


def job_refusals():
    """too few names, unfitted and foreign objects are refused; a full-length list is accepted"""
    res = {"paths": 1, "queries": 0, "obligations": [], "violations": [], "validated": 0, "witnesses": 0, "samples": []}
    kmod = loader.real("tree.kauri")
    U = loader.real("tree._utils")
    import contextlib as cl

    def raises(fn):
        try:
            with cl.redirect_stdout(io.StringIO()):
                fn()
            return False
        except Exception:
            return True
    t = build_tree(kmod, U, ((), ((), ())), [2, 0], [1.0, 0.0], [0, 1, 2])
    mdl = kmod.Kauri()
    mdl.tree_ = t
    mdl.labels_ = np.zeros(1, dtype=int)
    mdl.n_features_in_ = 3
    checks = [
        ("fewer names than distinct used features is refused", raises(lambda: kmod.print_kauri_tree(mdl, feature_names=["only"]))),
        ("unfitted Kauri is refused", raises(lambda: kmod.print_kauri_tree(kmod.Kauri()))),
        ("foreign object is refused", raises(lambda: kmod.print_kauri_tree(object()))),
        ("a full-length name list is accepted", not raises(lambda: kmod.print_kauri_tree(mdl, feature_names=["a", "b", "c"]))),
        ("no names is accepted", not raises(lambda: kmod.print_kauri_tree(mdl))),
    ]
    for nm, ok in checks:
        res["obligations"].append({"name": "refusals/" + nm, "verdict": "unsat" if ok else "sat", "how": "concrete"})
        if not ok:
            res["violations"].append({"signature": f"{PROP}:refusal:{nm.split()[0]}", "what": nm + " -- violated", "replay": {"kind": "refusal", "which": nm}})
    res["samples"].append({"checks": [c[0] for c in checks]})
    return res


def replay(rep, verbose=False):
    if rep["kind"] == "refusal":
        r = job_refusals()
        return any(v["replay"]["which"] == rep["which"] for v in r["violations"])
    kmod = loader.real("tree.kauri")
    U = loader.real("tree._utils")
    d = 3
    t = build_tree(kmod, U, _shape_from(rep["shape"]), rep["feats"], rep["thrs"], rep["targets"], order=rep.get("order"))
    mdl = kmod.Kauri()
    mdl.tree_ = t
    mdl.labels_ = np.zeros(1, dtype=int)
    mdl.n_features_in_ = d
    if rep["name_mode"] == "default":
        names, n2f = None, {f"X[:, {f}]": f for f in range(d)}
    else:
        names = [f"feat_{chr(97 + f)}" for f in range(d)]
        n2f = {nm: f for f, nm in enumerate(names)}
    buf = io.StringIO()
    try:
        other = [f"other_{chr(120 + f)}" for f in range(d)] if rep["name_mode"] == "default" else None
        with contextlib.redirect_stdout(io.StringIO()):
            kmod.print_kauri_tree(mdl, feature_names=other)
            if rep["name_mode"] != "default":
                kmod.print_kauri_tree(mdl, feature_names=[f"earlier_{f}" for f in range(d)])
        with contextlib.redirect_stdout(buf):
            kmod.print_kauri_tree(mdl, feature_names=names)
        rules = read_back(buf.getvalue(), n2f)
    except Exception as e:
        if verbose:
            print("printing / reading back failed:", type(e).__name__, e, "\n" + buf.getvalue())
        return True
    # the solver's point, plus a grid around every threshold
    pts = [np.array(rep["point"], dtype=float)]
    vals = sorted(set(rep["thrs"]))
    grid = sorted(set([v for v in vals] + [v - 0.5 for v in vals] + [v + 0.5 for v in vals] + [float(np.nextafter(v, np.inf)) for v in vals] + [float(np.nextafter(v, -np.inf)) for v in vals]))
    for combo in itertools.product(grid, repeat=d):
        pts.append(np.array(combo))
    for x in pts:
        pred = int(t.predict(x.reshape(1, -1))[0])
        got = apply_rules(rules, x)
        if pred != got:
            if verbose:
                print(buf.getvalue())
                print("point", x.tolist(), "predict ->", pred, "printed rules ->", got)
            return True
    return False


def jobs(tier):
    out = [{"name": "refusals", "target": "checks.c19:job_refusals", "kwargs": {}, "timeout": 120}]
    for L in ([1, 2, 3, 4] if tier == "quick" else [1, 2, 3, 4, 5]):
        for mode in ("default", "names"):
            out.append({"name": f"L{L}/{mode}", "target": "checks.c19:job", "kwargs": dict(L=L, name_mode=mode), "timeout": 280 if tier == "quick" else 2400})
    return out


def run(tier, seed, only=None, nproc=None):
    t0 = time.time()
    js = [j for j in jobs(tier) if not only or only in j["name"]]
    pairs = runner.run_jobs(js, nproc=nproc, seed=seed)
    ntrees = sum((r or {}).get("trees", 0) for _, r in pairs if r)
    return runner.finish(
        PROP, tier, seed, pairs, t0,
        assumptions=["trees are built through the real Tree._add_child (not through fit): every shape with the stated number of leaves",
                     "query point symbolic (3 features), thresholds concrete (0.0, negative, repeated values included)"],
        bounds={"tier": tier, "max_leaves": 4 if tier == "quick" else 5, "features": 3, "trees": ntrees,
                "split orders": "every order with a parent split before its children", "thresholds": "0.0, negative, repeated, and doubles needing 17 significant digits"},
        extra_cov={"trees": ntrees})
