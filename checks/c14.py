"""C14 -- must-link / cannot-link constraints: exact validation, right samples, right sign.

validate : the REAL ``_check_linking_constraint`` (through ``add_mlcl_constraint``) on m must-link and c cannot-link pairs whose
           2(m+c) end points are SYMBOLIC integers in [0, B] (non-contiguous, unordered and aliased index patterns all occur; aliasing
           is resolved by forking).  On every path:  raises ValueError  <=>  some pair has equal ends, or some cannot-link pair lies
           inside one connected component of the must-link graph (oracle: union-find on the path's values).
gradient : the REAL gradient decoration with ``_batchify.indices`` = every ordered selection of sample indices, SYMBOLIC predictions,
           upstream gradient and factor: the gradient handed to the wrapped ``_compute_grads`` differs from the upstream one, row by
           row, by  +factor*(y_a - y_b)  for cannot-link and  -factor*(y_a - y_b)  for must-link pairs with BOTH members in the batch,
           located at the members' positions in the batch, and by nothing anywhere else.
malformed: scalars, flat lists, single-column arrays, empty inputs through the public function (concrete).
"""
from __future__ import annotations

import itertools
import time
from fractions import Fraction

import numpy as np

from symx import core, harness, loader, runner
from symx.core import K, to_rat
from symx.explore import Explorer, PathError

PROP = "C14"


def _new():
    return {"paths": 0, "queries": 0, "obligations": [], "violations": [], "validated": 0, "witnesses": 0, "samples": []}


def oracle_reject(ml, cl):
    if any(a == b for a, b in ml) or any(a == b for a, b in cl):
        return True
    parent = {}

    def find(x):
        parent.setdefault(x, x)
        while parent[x] != x:
            parent[x] = parent[parent[x]]
            x = parent[x]
        return x
    for a, b in ml:
        parent[find(a)] = find(b)
    return any(find(a) == find(b) for a, b in cl)


def _model(symbolic=True):
    lin = loader.load("linear._linear_geminis") if symbolic else loader.real("linear._linear_geminis")
    return lin.LinearModel(n_clusters=2)


RELABEL = [40, 3, 8, 1, 17, 64]   # scattered index values: CPython iterates {40, 3} as 40, 3 (not ascending), {8, 1, 3} as 8, 1, 3


def job_validate(m, c, B, relabel=False):
    """relabel: the symbolic end points are mapped through RELABEL before being handed over ('whatever the sample indices are':
    large, scattered, in an order in which Python sets do not iterate them ascending)"""
    loader.install()
    res = _new()
    box = {}

    def setup():
        mc = loader.load("mlcl")
        mc.check_array = lambda a, **kw: np.asarray(a, dtype=object)
        pts = [core.SymInt(f"e{i}", 0, B) for i in range(2 * (m + c))]
        box["pts"] = pts
        return mc, pts

    def body(arg):
        mc, pts = arg
        if relabel:
            vv = [RELABEL[p.concretise()] for p in pts]
            ml = [[vv[2 * i], vv[2 * i + 1]] for i in range(m)]
            cl = [[vv[2 * (m + i)], vv[2 * (m + i) + 1]] for i in range(c)]
        else:
            ml = [[pts[2 * i], pts[2 * i + 1]] for i in range(m)]
            cl = [[pts[2 * (m + i)], pts[2 * (m + i) + 1]] for i in range(c)]
        try:
            mc.add_mlcl_constraint(_model(), must_link=ml or None, cannot_link=cl or None, factor=0.5)
            raised = False
        except ValueError:
            raised = True
        vals = [(RELABEL[p.concretise()] if relabel else p.concretise()) for p in pts]
        return raised, vals

    ex = Explorer(max_paths=200000, max_depth=600)
    seen = set()
    for out, pc, trace in ex.run(body, setup):
        res["paths"] += 1
        if isinstance(out, PathError):
            res["obligations"].append({"name": f"validate/m{m}c{c}B{B}/path{res['paths']}/path-error", "verdict": "sat", "how": repr(out)[:200]})
            sig = f"{PROP}:validate:raises-{type(out.exc).__name__}"
            if sig not in seen:
                seen.add(sig)
                res["violations"].append({"signature": sig, "what": f"add_mlcl_constraint raises {type(out.exc).__name__} instead of accepting or rejecting with ValueError", "replay": {"kind": "validate", "ml": None, "cl": None}})
            continue
        raised, vals = out
        ml = [(vals[2 * i], vals[2 * i + 1]) for i in range(m)]
        cl = [(vals[2 * (m + i)], vals[2 * (m + i) + 1]) for i in range(c)]
        want = oracle_reject(ml, cl)
        ok = raised == want
        res["obligations"].append({"name": f"validate/ML{ml}CL{cl}: rejected <=> self pair or cannot-link inside a must-link component", "verdict": "unsat" if ok else "sat", "how": "path-evaluation"})
        if not ok:
            sig = f"{PROP}:validate:{'rejects-consistent' if raised else 'accepts-contradictory'}"
            rep = {"kind": "validate", "ml": [list(p) for p in ml], "cl": [list(p) for p in cl]}
            if sig not in seen and replay(rep):
                seen.add(sig)
                res["violations"].append({"signature": sig, "what": f"must_link={rep['ml']} cannot_link={rep['cl']} is wrongly {'rejected' if raised else 'accepted'}", "replay": rep})
        if len(res["samples"]) < 2:
            res["samples"].append({"must_link": ml, "cannot_link": cl, "rejected": raised})
    if ex.truncated:
        res["obligations"].append({"name": f"validate/m{m}c{c}B{B}/exploration", "verdict": "unknown", "how": "path budget exhausted"})
    return res


def job_validate_graphs(max_len=13):
    """larger must-link components than the symbolic end-point jobs reach, as structured families (concrete enumeration, real
    add_mlcl_constraint): chains of 2..max_len samples with scattered index values and shuffled pair order / orientation, stars and two
    components; every cannot-link pair inside a component must be rejected, every pair across components accepted"""
    res = _new()
    mc = loader.real("mlcl")
    lin = loader.real("linear._linear_geminis")
    import random
    rng = random.Random(5)
    seen = set()
    cases = []
    for L in range(2, max_len + 1):
        idx = rng.sample(range(0, 200), L + 2)
        chain, outside = idx[:L], idx[L:]
        edges = [(chain[i], chain[i + 1]) for i in range(L - 1)]
        for variant in range(2):
            e = [(b, a) if (variant and k % 2) else (a, b) for k, (a, b) in enumerate(edges)]
            if variant:
                rng.shuffle(e)
            cases.append((f"chain{L}/v{variant}/ends", e, [(chain[0], chain[-1])]))
            cases.append((f"chain{L}/v{variant}/reversed-ends", e, [(chain[-1], chain[0])]))
            cases.append((f"chain{L}/v{variant}/inner", e, [(chain[L // 3], chain[-1])] if L >= 3 else [(chain[0], chain[1])]))
            cases.append((f"chain{L}/v{variant}/outside", e, [(chain[0], outside[0]), (outside[1], chain[-1])]))
        star = [(chain[0], c) for c in chain[1:]]
        cases.append((f"star{L}/leaves", star, [(chain[1], chain[-1])]))
        if L >= 4:
            h = L // 2
            two = [(chain[i], chain[i + 1]) for i in range(h - 1)] + [(chain[i], chain[i + 1]) for i in range(h, L - 1)]
            cases.append((f"two-components{L}/across", two, [(chain[0], chain[-1])]))
            cases.append((f"two-components{L}/within", two, [(chain[h], chain[-1])] if L - h >= 2 else [(chain[0], chain[h - 1])]))
    for name, ml, cl in cases:
        res["paths"] += 1
        rep_ = {"kind": "validate", "ml": [list(p) for p in ml], "cl": [list(p) for p in cl]}
        bad = replay(rep_)
        want = oracle_reject(ml, cl)
        res["obligations"].append({"name": f"validate-graphs/{name}: {'rejected' if want else 'accepted'}", "verdict": "sat" if bad else "unsat", "how": "concrete run of add_mlcl_constraint vs union-find"})
        sig = f"{PROP}:validate:{'accepts-contradictory' if want else 'rejects-consistent'}"
        if bad and sig not in seen:
            seen.add(sig)
            res["violations"].append({"signature": sig, "what": f"{name}: must_link={rep_['ml']} cannot_link={rep_['cl']} is wrongly {'accepted' if want else 'rejected'}", "replay": rep_})
    res["samples"].append({"cases": len(cases)})
    return res


def job_gradient(ml, cl, n_samples=4, Kc=2, max_batch=3, timeout_q=10.0):
    loader.install()
    res = _new()
    seen = set()
    batches = []
    for r in range(1, max_batch + 1):
        for sel in itertools.permutations(range(n_samples), r):
            batches.append(list(sel))
    for batch in batches:
        box = {}

        def setup():
            mc = loader.load("mlcl")
            mc.check_array = lambda a, **kw: np.asarray(a)
            mdl = _model()
            got = {}

            def inner(X, y_pred, gradient):
                got["g"] = np.array(gradient, dtype=object, copy=True)
                return ["inner-result"]
            mdl._compute_grads = inner
            f = core.var("factor", "+")
            import numbers
            mdl = mc.add_mlcl_constraint.__wrapped__(mdl, must_link=[list(p) for p in ml] or None, cannot_link=[list(p) for p in cl] or None, factor=f) \
                if hasattr(mc.add_mlcl_constraint, "__wrapped__") else mc.add_mlcl_constraint(mdl, must_link=[list(p) for p in ml] or None, cannot_link=[list(p) for p in cl] or None, factor=f)
            box.update(mdl=mdl, got=got, f=f)
            return mdl

        def body(mdl):
            b = len(batch)
            Y = harness.free_matrix(b, Kc, "y")
            G = harness.free_matrix(b, Kc, "g")
            mdl._batchify.indices = list(batch)
            G0 = np.array(G, dtype=object, copy=True)
            ret = mdl._compute_grads(np.zeros((b, 1)), Y, G)
            return Y, G0, ret

        ex = Explorer(max_paths=50)
        for out, pc, trace in ex.run(body, setup):
            res["paths"] += 1
            tag = f"gradient/ML{ml}CL{cl}/batch{batch}"
            if isinstance(out, PathError):
                res["obligations"].append({"name": tag + "/path-error", "verdict": "inconclusive", "how": repr(out)[:300]})
                continue
            Y, G0, ret = out
            got = box["got"].get("g")
            f = to_rat(box["f"])
            ok = got is not None and ret == ["inner-result"] and got.shape == G0.shape
            if ok:
                exp = np.array(G0, dtype=object, copy=True)
                for pairs, sg in ((cl, 1), (ml, -1)):
                    for a, b_ in pairs:
                        if a in batch and b_ in batch:
                            ia, ib = batch.index(a), batch.index(b_)
                            for k in range(Kc):
                                dlt = sg * f * (to_rat(Y[ia, k]) - to_rat(Y[ib, k]))
                                exp[ia, k] = to_rat(exp[ia, k]) + dlt
                                exp[ib, k] = to_rat(exp[ib, k]) - dlt
                ok = all(to_rat(x).key() == to_rat(y).key() for x, y in zip(got.reshape(-1), exp.reshape(-1)))
            res["obligations"].append({"name": tag + "/wrapped _compute_grads receives G +- factor*(y_a-y_b) at the members' batch positions only", "verdict": "unsat" if ok else "sat", "how": "term-identity"})
            if not ok:
                sig = f"{PROP}:gradient"
                rep = {"kind": "gradient", "ml": [list(p) for p in ml], "cl": [list(p) for p in cl], "batch": batch, "K": Kc}
                if sig not in seen and replay(rep):
                    seen.add(sig)
                    res["violations"].append({"signature": sig, "what": f"constraint gradient wrong for batch indices {batch} (must_link={rep['ml']}, cannot_link={rep['cl']})", "replay": rep})
                elif sig not in seen:
                    res["obligations"][-1]["verdict"] = "inconclusive"
    res["samples"].append({"must_link": ml, "cannot_link": cl, "batches": len(batches)})
    return res


def job_malformed():
    res = _new()
    mc = loader.real("mlcl")
    lin = loader.real("linear._linear_geminis")

    def rejects(**kw):
        try:
            mc.add_mlcl_constraint(lin.LinearModel(), **kw)
            return False
        except (ValueError, TypeError):
            return True
    cases = [("scalar must_link", dict(must_link=3), True), ("flat list", dict(must_link=[0, 1]), True), ("single column", dict(must_link=[[0], [1]]), True),
             ("single column cannot_link", dict(cannot_link=np.array([[0], [1]])), True), ("3-d array", dict(must_link=np.zeros((2, 2, 2), dtype=int)), True),
             ("empty lists", dict(must_link=[], cannot_link=[]), False), ("None", dict(), False), ("valid", dict(must_link=[[0, 1]], cannot_link=[[1, 2]]), False),
             ("tuple pairs", dict(must_link=[(5, 7)], cannot_link=[(0, 1)]), False), ("numpy pairs", dict(cannot_link=np.array([[3, 9]])), False)]
    for nm, kw, want in cases:
        got = rejects(**kw)
        ok = got == want
        res["obligations"].append({"name": f"malformed/{nm}: rejected == {want}", "verdict": "unsat" if ok else "sat", "how": "concrete"})
        if not ok:
            res["violations"].append({"signature": f"{PROP}:malformed:{nm.replace(' ', '-')}", "what": f"add_mlcl_constraint: {nm} is wrongly {'rejected' if got else 'accepted'}", "replay": {"kind": "malformed", "name": nm}})
    res["paths"] = len(cases)
    res["samples"].append({"cases": [c[0] for c in cases]})
    return res


def replay(rep, verbose=False):
    mc = loader.real("mlcl")
    lin = loader.real("linear._linear_geminis")
    kind = rep["kind"]
    if kind == "malformed":
        return any(v["replay"]["name"] == rep["name"] for v in job_malformed()["violations"])
    if kind == "validate":
        if rep["ml"] is None:
            return True
        try:
            mc.add_mlcl_constraint(lin.LinearModel(), must_link=rep["ml"] or None, cannot_link=rep["cl"] or None)
            raised = False
        except ValueError:
            raised = True
        want = oracle_reject([tuple(p) for p in rep["ml"]], [tuple(p) for p in rep["cl"]])
        if verbose:
            print(f"must_link={rep['ml']} cannot_link={rep['cl']}: library {'rejects' if raised else 'accepts'}; by definition {'contradictory/self-pair' if want else 'consistent'}")
        return raised != want
    if kind == "gradient":
        rng = np.random.default_rng(0)
        mdl = lin.LinearModel(n_clusters=rep["K"])
        got = {}

        def inner(X, y_pred, gradient):
            got["g"] = np.array(gradient, copy=True)
            return []
        mdl._compute_grads = inner
        factor = 0.75
        mdl = mc.add_mlcl_constraint(mdl, must_link=rep["ml"] or None, cannot_link=rep["cl"] or None, factor=factor)
        batch = rep["batch"]
        b = len(batch)
        Y = rng.dirichlet(np.ones(rep["K"]), size=b)
        G = rng.normal(size=(b, rep["K"]))
        mdl._batchify.indices = list(batch)
        G0 = G.copy()
        mdl._compute_grads(np.zeros((b, 1)), Y, G)
        exp = G0.copy()
        for pairs, sg in ((rep["cl"], 1), (rep["ml"], -1)):
            for a, b_ in pairs:
                if a in batch and b_ in batch:
                    ia, ib = batch.index(a), batch.index(b_)
                    exp[ia] += sg * factor * (Y[ia] - Y[ib])
                    exp[ib] -= sg * factor * (Y[ia] - Y[ib])
        bad = "g" not in got or not np.allclose(got["g"], exp, rtol=1e-12, atol=1e-12)
        if verbose:
            print("batch", batch, "gradient passed on:\n", got.get("g"), "\nexpected:\n", exp)
        return bad
    raise ValueError(kind)


def jobs(tier):
    q = tier == "quick"
    out = [{"name": "malformed", "target": "checks.c14:job_malformed", "kwargs": {}, "timeout": 120}]
    # (1, 1, 7): index values well above / below those of the other list (a cannot-link pair outside the must-link index range)
    for m, c, B in ([(1, 1, 7), (2, 1, 3), (1, 2, 2)] if q else [(1, 1, 9), (2, 1, 4), (1, 2, 3), (2, 2, 2), (3, 1, 2)]):
        out.append({"name": f"validate/m{m}c{c}B{B}", "target": "checks.c14:job_validate", "kwargs": dict(m=m, c=c, B=B), "timeout": 280 if q else 3000})
    for m, c, B in ([(1, 1, 3), (2, 1, 2)] if q else [(1, 1, 5), (2, 1, 3), (1, 2, 3)]):
        out.append({"name": f"validate-relabelled/m{m}c{c}B{B}", "target": "checks.c14:job_validate", "kwargs": dict(m=m, c=c, B=B, relabel=True), "timeout": 280 if q else 3000})
    out.append({"name": "validate-graphs", "target": "checks.c14:job_validate_graphs", "kwargs": dict(max_len=13 if q else 24), "timeout": 280})
    pairsets = [([(0, 1)], [(2, 3)]), ([(3, 1)], [(1, 0)]), ([(0, 2), (2, 3)], []), ([], [(1, 3), (0, 2)]),
                # one sample in the same slot of several pairs of one kind (accumulation into one row)
                ([(0, 1), (0, 2)], []), ([], [(3, 1), (2, 1)]), ([(0, 1), (0, 2)], [(0, 3), (1, 3)]),
                # the same pair listed in both orientations / twice: every listed pair contributes its own term
                ([(0, 1), (1, 0)], [(2, 3)]), ([(0, 1)], [(2, 3), (3, 2), (2, 3)])]
    if not q:
        pairsets += [([(0, 1), (2, 3)], [(1, 2)]), ([(2, 0)], [(3, 2), (1, 0)])]
    for ml, cl in pairsets:
        out.append({"name": f"gradient/ML{ml}CL{cl}", "target": "checks.c14:job_gradient", "kwargs": dict(ml=ml, cl=cl, max_batch=3 if q else 4), "timeout": 280 if q else 1800})
    return out


def run(tier, seed, only=None, nproc=None):
    t0 = time.time()
    js = [j for j in jobs(tier) if not only or only in j["name"]]
    pairs = runner.run_jobs(js, nproc=nproc, seed=seed)
    return runner.finish(
        PROP, tier, seed, pairs, t0,
        assumptions=["sample indices are symbolic integers in [0, B]; every aliasing pattern is reached by forking on equality",
                     "check_array on the pair lists is the identity (scikit-learn's conversion is outside); SciPy's BFS runs on the concrete 0/1 matrix the code builds",
                     "gradient: predictions, upstream gradient and factor symbolic; batches = every ordered selection of <=3 (4 thorough) of 4 sample indices"],
        bounds={"tier": tier, "jobs": [j["name"] for j in js]})
