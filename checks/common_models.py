"""Shared model-level machinery (C03, C04, C06, C10, C11, C12, C18): symbolic model instances, the stubbed fit
environment, concrete replays on the real classes."""
from __future__ import annotations

import math
from fractions import Fraction

import numpy as np

from symx import core, harness, loader, npx
from symx.core import K, Rat, to_rat
from . import common_gemini as cg

FAMILY_MODULE = {
    "LinearModel": "linear._linear_geminis", "RIM": "linear._linear_geminis", "KernelRIM": "linear._linear_geminis",
    "LinearMMD": "linear._linear_geminis", "LinearWasserstein": "linear._linear_geminis",
    "MLPModel": "mlp._mlp_geminis", "MLPMMD": "mlp._mlp_geminis", "MLPWasserstein": "mlp._mlp_geminis",
    "SparseLinearModel": "sparse._linear_sparse", "SparseLinearMMD": "sparse._linear_sparse", "SparseLinearMI": "sparse._linear_sparse",
    "SparseMLPModel": "sparse._mlp_sparse", "SparseMLPMMD": "sparse._mlp_sparse",
    "CategoricalModel": "nonparametric._categorical_models", "CategoricalMMD": "nonparametric._categorical_models",
    "CategoricalWasserstein": "nonparametric._categorical_models",
    "Douglas": "tree.douglas",
}

BASE = {"RIM": "linear", "KernelRIM": "kernelrim", "LinearModel": "linear", "LinearMMD": "linear", "LinearWasserstein": "linear",
        "MLPModel": "mlp", "MLPMMD": "mlp", "MLPWasserstein": "mlp", "SparseLinearModel": "linear", "SparseLinearMMD": "linear",
        "SparseLinearMI": "linear", "SparseMLPModel": "smlp", "SparseMLPMMD": "smlp", "CategoricalModel": "cat", "CategoricalMMD": "cat",
        "CategoricalWasserstein": "cat", "Douglas": "douglas"}


def shape_str(shape):
    return "x".join(str(s) for s in shape)


def dims(family, shape):
    b = BASE[family]
    if b == "linear":
        n, d, Kc = shape
        return dict(n=n, d=d, K=Kc)
    if b == "kernelrim":
        n, Kc = shape
        return dict(n=n, d=n, K=Kc)
    if b in ("mlp", "smlp"):
        n, d, h, Kc = shape
        return dict(n=n, d=d, h=h, K=Kc)
    if b == "cat":
        n, Kc = shape
        return dict(n=n, d=1, K=Kc)
    if b == "douglas":
        n, d, cuts, Kc = shape
        return dict(n=n, d=d, cuts=cuts, K=Kc)
    raise ValueError(family)


def param_names(family):
    return {"linear": ["W_", "b_"], "kernelrim": ["W_", "b_"], "mlp": ["W1_", "W2_", "b1_", "b2_"],
            "smlp": ["W1_", "W2_", "W_skip_", "b1_", "b2_"], "cat": ["logits_"], "douglas": None}[BASE[family]]


def get_class(family, symbolic=True):
    mod = loader.load(FAMILY_MODULE[family]) if symbolic else loader.real(FAMILY_MODULE[family])
    return getattr(mod, family), mod


def set_params_arrays(mdl, family, dm, make):
    """give the (unfitted) instance parameter arrays; make(name, shape) -> array.  returns [(name, array)] in
    _get_weights() order."""
    b = BASE[family]
    out = []
    if b in ("linear", "kernelrim"):
        mdl.W_ = make("W", (dm["d"], dm["K"]))
        mdl.b_ = make("b", (1, dm["K"]))
        out = [("W_", mdl.W_), ("b_", mdl.b_)]
    elif b in ("mlp", "smlp"):
        mdl.W1_ = make("W1", (dm["d"], dm["h"]))
        mdl.b1_ = make("b1", (1, dm["h"]))
        mdl.W2_ = make("W2", (dm["h"], dm["K"]))
        mdl.b2_ = make("b2", (1, dm["K"]))
        if b == "smlp":
            mdl.W_skip_ = make("Ws", (dm["d"], dm["K"]))
            out = [("W1_", mdl.W1_), ("W2_", mdl.W2_), ("W_skip_", mdl.W_skip_), ("b1_", mdl.b1_), ("b2_", mdl.b2_)]
        else:
            out = [("W1_", mdl.W1_), ("W2_", mdl.W2_), ("b1_", mdl.b1_), ("b2_", mdl.b2_)]
    elif b == "cat":
        mdl.logits_ = make("L", (dm["n"], dm["K"]))
        out = [("logits_", mdl.logits_)]
    elif b == "douglas":
        mdl.cut_points_list_ = [(i, make(f"c{i}", (dm["cuts"],))) for i in range(dm["d"])]
        mdl.leaf_scores_ = make("ls", ((dm["cuts"] + 1) ** dm["d"], dm["K"]))
        out = [("leaf_scores_", mdl.leaf_scores_)] + [(f"cut_points[{i}]", c) for i, c in mdl.cut_points_list_]
    mdl.n_features_in_ = dm["d"]
    return out


def _sym_make(name, shape):
    a = np.empty(shape, dtype=object)
    for idx in np.ndindex(*shape):
        a[idx] = core.var(name + "_" + "_".join(str(i) for i in idx))
    return a


def build_symbolic(family, shape, hyper=None):
    """an unfitted instance of the symbolic class with symbolic parameters, and symbolic data X."""
    dm = dims(family, shape)
    cls, mod = get_class(family)
    kw = dict(n_clusters=dm["K"])
    b = BASE[family]
    if b in ("mlp", "smlp"):
        kw["n_hidden_dim"] = dm["h"]
    if b == "douglas":
        kw["n_cuts"] = dm["cuts"]
    if hyper:
        kw.update(hyper)
    mdl = cls(**kw)
    if family in ("RIM", "KernelRIM"):
        mdl.reg = core.var("reg", "0+")
    if b == "douglas":
        mdl.temperature = core.var("T", "+")
    params = set_params_arrays(mdl, family, dm, _sym_make)
    if b == "kernelrim":
        X = harness.symmetric_matrix(dm["n"], "k")
        mdl.input_data_ = X
        mdl._training_kernel = X
    elif b == "cat":
        X = harness.free_matrix(dm["n"], 1, "x")
    else:
        X = harness.free_matrix(dm["n"], dm["d"], "x")
    return mdl, X, params, dm


def compute_grads_penalty(family, mdl, X):
    """the penalty that the family's _compute_grads itself accounts for (objective = <G,P> - penalty)."""
    if family == "KernelRIM":
        # documented kernel-weighted l2:  reg * tr(W^T K W)   (full batch: X is the training kernel)
        W = mdl.W_
        n, Kc = W.shape
        if X.shape[0] != n:
            return None
        t = K(0)
        for k in range(Kc):
            for i in range(n):
                for j in range(n):
                    t = t + to_rat(W[i, k]) * to_rat(X[i, j]) * to_rat(W[j, k])
        return to_rat(mdl.reg) * t
    return None


# ----------------------------------------------------------------------------------------------------------------------
# concrete twins


def _float_make(model):
    def make(name, shape):
        a = np.empty(shape, dtype=float)
        for idx in np.ndindex(*shape):
            a[idx] = float(Fraction(model.get(name + "_" + "_".join(str(i) for i in idx), 0)))
        return a
    return make


def build_concrete(family, shape, model, hyper=None):
    dm = dims(family, shape)
    cls, mod = get_class(family, symbolic=False)
    kw = dict(n_clusters=dm["K"])
    b = BASE[family]
    if b in ("mlp", "smlp"):
        kw["n_hidden_dim"] = dm["h"]
    if b == "douglas":
        kw["n_cuts"] = dm["cuts"]
    if hyper:
        kw.update(hyper)
    mdl = cls(**kw)
    if family in ("RIM", "KernelRIM"):
        mdl.reg = float(Fraction(model.get("reg", 0)))
    if b == "douglas":
        mdl.temperature = float(Fraction(model.get("T", 1)))
    params = set_params_arrays(mdl, family, dm, _float_make(model))
    n, d = dm["n"], dm["d"]
    if b == "kernelrim":
        X = np.zeros((n, n))
        for i in range(n):
            for j in range(i, n):
                X[i, j] = X[j, i] = float(Fraction(model.get(f"k_{i}_{j}", 1 if i == j else 0)))
        mdl.input_data_ = X
        mdl._training_kernel = X
    elif b == "cat":
        X = np.zeros((n, 1))
    else:
        X = np.array([[float(Fraction(model.get(f"x_{i}_{j}", 0))) for j in range(d)] for i in range(n)])
    G = np.array([[float(Fraction(model.get(f"g_{i}_{k}", 0))) for k in range(dm["K"])] for i in range(n)])
    return mdl, X, params, dm, G


def validate_backprop(family, shape, model, P0, grads):
    try:
        mdl, X, params, dm, G = build_concrete(family, shape, model)
        P = mdl._infer(X)
        rg = mdl._compute_grads(X, P, G.copy())
        env = harness.model_env(model, default=0.0)
        memo = {}
        ok = np.allclose(harness.eval_array(P0, env), P, rtol=1e-6, atol=1e-9)
        for g_sym, g_real in zip(grads, rg):
            ok = ok and np.allclose(harness.eval_array(g_sym, env), np.asarray(g_real, dtype=float), rtol=1e-5, atol=1e-8)
        return bool(ok)
    except Exception:
        return None


def replay_gradient(rep, verbose=False):
    if rep["kind"] == "backprop":
        return _replay_backprop(rep, verbose)
    return _replay_loop(rep, verbose)


def _replay_backprop(rep, verbose):
    """REAL class: analytic direction vs central finite differences of theta -> <G, infer_theta(X)> - penalty."""
    family, shape = rep["family"], tuple(rep["shape"])
    model = {k: Fraction(v) for k, v in rep.get("model", {}).items()}
    # generic values for anything the solver left unconstrained (zeros hide most back-propagation mistakes)
    rng = np.random.default_rng(5)
    points = [model]
    for _ in range(3):
        m2 = dict(model)
        points.append(("fill", m2))
    for pi, pm in enumerate(points):
        fill = isinstance(pm, tuple)
        m = pm[1] if fill else pm
        mdl, X, params, dm, G = build_concrete(family, shape, m)
        if fill:
            for arr in [X, G] + [a for _, a in params]:
                z = (arr == 0)
                arr[z] = rng.uniform(-1.0, 1.0, size=int(z.sum()))
            if BASE[family] == "kernelrim":
                X[:] = (X + X.T) / 2
            if family in ("RIM", "KernelRIM") and mdl.reg == 0:
                mdl.reg = 0.3
        for j in (rep.get("null_rows") or []):
            for nm, a in params:
                if nm in ("W1_", "W_skip_", "W_"):
                    a[j] = 0.0
        bad = _fd_compare(family, mdl, X, G, params, rep.get("param"), verbose)
        if bad:
            return True
    return False


def _objective(family, mdl, X, G):
    P = mdl._infer(X, retain=False) if BASE[family] != "cat" else mdl._infer(X)
    val = float(np.sum(G * P))
    if family == "KernelRIM":
        val -= mdl.reg * float(np.trace(mdl.W_.T @ X @ mdl.W_))
    return val


def _fd_compare(family, mdl, X, G, params, only, verbose):
    P = mdl._infer(X)
    grads = mdl._compute_grads(X, P, G.copy())
    if len(grads) != len(params):
        return True
    worst = 0.0
    for (pname, parr), g in zip(params, grads):
        g = np.asarray(g, dtype=float)
        if g.shape != parr.shape:
            return True
        for idx in np.ndindex(parr.shape):
            old = parr[idx]
            h = 1e-6 * max(1.0, abs(old))
            parr[idx] = old + h
            fp = _objective(family, mdl, X, G)
            parr[idx] = old - h
            fm = _objective(family, mdl, X, G)
            parr[idx] = old
            fd = -(fp - fm) / (2 * h)
            err = abs(fd - g[idx]) / max(1.0, abs(fd), abs(g[idx]))
            if verbose and err > 1e-5:
                print(f"{family} {pname}{list(idx)}: returned direction {g[idx]:.9g}  -d/dtheta (finite difference) {fd:.9g}")
            if err > 1e-4 and (only is None or pname == only):
                worst = max(worst, err)
    return worst > 1e-4


# ----------------------------------------------------------------------------------------------------------------------
# the stubbed fit environment


class StopFit(BaseException):
    pass


class RngStub:
    """check_random_state(...) stub: draws are fresh symbols (named by call order), permutation is chosen by the harness"""

    def __init__(self, env):
        self.env = env
        self.calls = 0

    def _fresh(self, tag, size, lo=None, hi=None):
        self.calls += 1
        if size is None:
            size = ()
        if isinstance(size, int):
            size = (size,)
        a = np.empty(size, dtype=object)
        for idx in np.ndindex(*size):
            v = core.var(f"r{self.calls}{tag}_" + "_".join(str(i) for i in idx))
            if lo is not None:
                harness.assume(v >= lo)
                harness.assume(v <= hi)
            a[idx] = v
        self.env.draws.append((tag, a, lo, hi))
        return a

    def uniform(self, low=0.0, high=1.0, size=None):
        return self._fresh("u", size, low, high)

    def normal(self, loc=0.0, scale=1.0, size=None):
        return self._fresh("n", size)

    def permutation(self, n):
        if isinstance(n, (int, np.integer)):
            p = self.env.next_perm(int(n))
            return np.array(p, dtype=np.int64)
        raise NotImplementedError

    def shuffle(self, x):
        # in place, by the permutation the harness chose for this draw (the same one `permutation` would have returned)
        p = self.env.next_perm(len(x))
        x[...] = np.array(x, copy=True)[list(p)]

    def choice(self, a, size=None, replace=True, p=None):
        n = int(a)
        size = int(size) if size is not None else 1
        return np.arange(n)[:size]


class Recorder:
    """stands in for SGDOptimizer / AdamOptimizer: records what it is handed, then moves the parameters to fresh symbols
    ("parameters far from initialisation included")."""

    instances = []

    def __init__(self, params, learning_rate_init=0.001, *a, **kw):
        self.params = params
        self.learning_rate_init = learning_rate_init
        self.learning_rate = core.var("lr", "+") if Recorder.env.symbolic else float(learning_rate_init)
        self.kind = type(self).__name__
        Recorder.instances.append(self)

    def update_params(self, params, grads):
        env = Recorder.env
        env.on_update(self, params, grads)


class RecSGD(Recorder):
    pass


class RecAdam(Recorder):
    pass


class GeminiSpy:
    def __init__(self, inner, env):
        self.inner = inner
        self.env = env
        self.epsilon = inner.epsilon

    def __call__(self, y_pred, affinity, return_grad=False):
        self.env.gem_calls.append({"y_pred": np.array(y_pred, dtype=object, copy=True), "affinity": affinity, "return_grad": return_grad})
        if self.env.gemini_stub:
            # the objective's internals are irrelevant to the caller's question (batching / wiring): free symbolic values
            c = len(self.env.gem_calls)
            S = core.var(f"score{c}")
            if not return_grad:
                return S
            yp = np.asarray(y_pred, dtype=object)
            G = np.empty(yp.shape, dtype=object)
            for idx in np.ndindex(*yp.shape):
                G[idx] = core.var(f"G{c}_" + "_".join(map(str, idx)))
            return S, G
        return self.inner(y_pred, affinity, return_grad)

    def evaluate(self, y_pred, affinity, return_grad=False):
        return self.__call__(y_pred, affinity, return_grad)

    def compute_affinity(self, X, y=None):
        return self.inner.compute_affinity(X, y)

    def __getattr__(self, k):
        return getattr(self.inner, k)


class FitEnv:
    def __init__(self, family, shape, gemini="mi", batch_size=None, solver="adam", max_iter=1, perm=None, mlcl=False, hyper=None,
                 stop_after_training=True, affinity="computed", symbolic=True, assume_unclipped=True, gemini_stub=False, final_infer="real"):
        self.assume_unclipped = assume_unclipped
        self.gemini_stub = gemini_stub
        self.final_infer = final_infer
        self.family, self.shape = family, tuple(shape)
        self.dm = dims(family, shape)
        self.n = self.dm["n"]
        self.symbolic = symbolic
        self.draws = []
        self.steps = []
        self.gem_calls = []
        self.infer_calls = []
        self.perm = perm
        self.perm_calls = 0
        self.stop_after_training = stop_after_training
        self.batch_size = batch_size
        self.max_iter = max_iter
        self.mlcl = mlcl
        self.stub = cg.EmdStub()
        cg.install_ot_stub(self.stub)
        cls, mod = get_class(family)
        self.mod = mod
        self._patch_modules()
        kw = dict(n_clusters=self.dm["K"], max_iter=max_iter, solver=solver)
        b = BASE[family]
        if b != "cat":
            kw["batch_size"] = batch_size
        if b in ("mlp", "smlp"):
            kw["n_hidden_dim"] = self.dm["h"]
        if b == "douglas":
            kw["n_cuts"] = self.dm["cuts"]
        if family not in ("RIM", "KernelRIM", "LinearMMD", "LinearWasserstein", "MLPMMD", "MLPWasserstein", "SparseLinearMMD", "SparseMLPMMD",
                          "SparseLinearMI", "CategoricalMMD", "CategoricalWasserstein"):
            kw["gemini"] = gemini
        if hyper:
            kw.update(hyper)
        self.mdl = cls(**kw)
        if family in ("RIM", "KernelRIM") and not (hyper and "reg" in hyper):
            self.mdl.reg = core.var("reg", "0+")
        if b == "douglas" and not (hyper and "temperature" in hyper):
            self.mdl.temperature = core.var("T", "+")
        # symbolic hyper-parameters would trip scikit-learn's np.isnan-based Interval test: validation itself is C16's subject
        self.mdl._validate_params = lambda: None
        # data
        if b == "kernelrim":
            self.X = harness.free_matrix(self.n, 1, "x")      # raw data: only its identity matters (kernel is stubbed)
        elif b == "cat":
            self.X = harness.free_matrix(self.n, 1, "x")
        else:
            self.X = harness.free_matrix(self.n, self.dm["d"], "x")
        self.y = None
        # spies
        inner_get = self.mdl.get_gemini
        env = self

        def get_gemini():
            return GeminiSpy(inner_get(), env)
        self.mdl.get_gemini = get_gemini
        inner_infer = self.mdl._infer

        def infer(X, retain=True):
            if env.stop_after_training and len(env.steps) >= env.expected_steps():
                raise StopFit()
            if env.final_infer == "concrete" and len(env.steps) >= env.expected_steps() and len(env.infer_calls) >= env.expected_steps():
                # the forward pass after training (labels_): a concrete stand-in, so that its arg-max does not fork
                m = len(X)
                out = np.zeros((m, env.dm["K"]))
                out[np.arange(m), np.arange(m) % env.dm["K"]] = 1.0
                env.final_infer_calls = getattr(env, "final_infer_calls", 0) + 1
                return out
            out = inner_infer(X, retain)
            env.infer_calls.append({"X": X, "y_pred": np.array(out, dtype=object, copy=True)})
            if env.assume_unclipped:
                # restrict to predictions the GEMINI does not clip (saturated predictions: separate small job)
                lo, hi = 1e-12, 1 - 1e-12
                for v in np.asarray(out, dtype=object).reshape(-1):
                    harness.assume(to_rat(v) > lo)
                    harness.assume(to_rat(v) < hi)
            return out
        self.mdl._infer = infer
        self.ml, self.cl, self.factor = [], [], None
        if mlcl:
            mc = loader.load("mlcl")
            mc.check_array = lambda a, **kw: np.asarray(a)
            if isinstance(mlcl, dict):
                self.ml, self.cl = [tuple(p) for p in mlcl.get("ml", [])], [tuple(p) for p in mlcl.get("cl", [])]
            else:
                self.ml = [(0, 1)] if self.n >= 2 else []
                self.cl = [(0, 2)] if self.n >= 3 else []
            self.factor = 0.75     # concrete (exactly representable): the decorator validates it with np.isnan
            numbers_register()
            self.mdl = mc.add_mlcl_constraint(self.mdl, must_link=[list(p) for p in self.ml] or None, cannot_link=[list(p) for p in self.cl] or None,
                                              factor=self.factor)

    # ---- environment pieces
    def expected_steps(self):
        if BASE[self.family] == "cat":
            return self.max_iter
        bs = self.batch_size or self.n
        return self.max_iter * (-(-self.n // bs))

    def next_perm(self, n):
        self.perm_calls += 1
        if self.perm is not None:
            return list(self.perm)
        return list(range(n))[::-1] if n > 1 else [0]     # a non-identity default

    def _patch_modules(self):
        env = self
        base = loader.load("_base_gemini")
        Recorder.env = self
        Recorder.instances = []

        def validate_data(est, X, **kw):
            est.n_features_in_ = X.shape[1]
            return X
        ident = lambda X, **kw: X
        for name in ("_base_gemini", "linear._linear_geminis", "sparse._linear_sparse", "sparse._mlp_sparse", "tree.douglas", "tree.kauri"):
            m = loader.load(name)
            if hasattr(m, "check_array"):
                m.check_array = ident
            if hasattr(m, "_validate_data"):
                m._validate_data = validate_data
            if hasattr(m, "check_random_state"):
                m.check_random_state = lambda rs: (rs if isinstance(rs, RngStub) else RngStub(env))
            if hasattr(m, "SGDOptimizer"):
                m.SGDOptimizer = RecSGD
            if hasattr(m, "AdamOptimizer"):
                m.AdamOptimizer = RecAdam
            if hasattr(m, "check_is_fitted"):
                m.check_is_fitted = lambda est, *a, **kw: None
        sb = loader.load("sparse._base_sparse")
        sb.check_random_state = lambda rs: (rs if isinstance(rs, RngStub) else RngStub(env))
        sb.SGDOptimizer = RecSGD
        gd = loader.load("gemini._geomdistances")
        gd.pairwise_kernels = lambda X, Y=None, metric="linear", **kw: env.affinity_uf("kernel", metric, kw, X, Y)
        gd.pairwise_distances = lambda X, Y=None, metric="euclidean", **kw: env.affinity_uf("distance", metric, kw, X, Y)
        lin = loader.load("linear._linear_geminis")
        lin.pairwise_kernels = lambda X, Y=None, metric="linear", **kw: env.affinity_uf("kernel", metric, kw, X, Y)
        self.affinities = {}

    def affinity_uf(self, what, metric, params, X, Y):
        """pairwise_kernels / pairwise_distances stub: an uninterpreted symmetric matrix per (kind, metric, params, data)"""
        key = (what, metric if isinstance(metric, str) else id(metric), tuple(sorted(params.items())), id(X), None if Y is None else id(Y))
        if key not in self.affinities:
            n = len(X)
            import zlib
            # the symbol names encode WHICH kernel / metric with WHICH parameters produced the matrix (two different requests
            # must never share symbols, whatever the order in which they are made)
            h = zlib.crc32(repr((metric if isinstance(metric, str) else "callable", sorted(params.items()), Y is not None and Y is not X)).encode()) % 100000
            base = "linear" if what == "kernel" else "euclidean"
            tag = ("a" if what == "kernel" else "m") + ("" if (metric == base and not params) else f"h{h}")
            # ... and the CONTENT of the data (an array edited in place by the caller is different data)
            def _content(Z):
                Z = np.asarray(Z, dtype=object)
                return tuple(to_rat(v).key() if not isinstance(v, (str, bytes)) else v for v in Z.reshape(-1))
            default_names = all(k[0] == "v" and k[1].startswith("x_") for k in (core.CTX.factors[f] for v in np.asarray(X, dtype=object).reshape(-1) for f, _ in to_rat(v).f))
            if not default_names:
                tag += f"d{zlib.crc32(repr(_content(X)).encode()) % 100000}"
            if Y is None or Y is X:
                A = harness.symmetric_matrix(n, tag, sign=("0+" if what == "distance" else None), zero_diag=(what == "distance"))
            else:
                A = harness.free_matrix(n, len(Y), tag)
            post = getattr(self, "affinity_post", None)
            if post is not None:
                A = post(A)
            self.affinities[key] = A
            self.affinity_log = getattr(self, "affinity_log", []) + [dict(what=what, metric=metric, params=dict(params), X=X, Y=Y, value=A)]
        return self.affinities[key]

    def training_kernel(self):
        for rec in getattr(self, "affinity_log", []):
            if rec["what"] == "kernel" and rec["Y"] is not None:
                return rec["value"]
        raise RuntimeError("KernelRIM training kernel was not computed through pairwise_kernels")

    def on_update(self, opt, params, grads):
        names = self.current_param_names()
        snap = []
        for nm, w in zip(names, params):
            snap.append((nm, np.array(w, dtype=object, copy=True)))
        gsnap = [np.array(g, dtype=object, copy=True) for g in grads]
        call = self.gem_calls[-1] if self.gem_calls else None
        inf = self.infer_calls[-1] if self.infer_calls else None
        rows = None
        if inf is not None:
            rows = self._rows_of(inf["X"])
        self.steps.append({"params": snap, "grads": gsnap, "gem": call, "infer": inf, "rows": rows, "optimiser": opt.kind, "n_params": len(params)})
        # move every parameter to fresh symbols, in place
        t = len(self.steps)
        for nm, w in zip(names, params):
            base = nm.replace("_", "").replace("[", "").replace("]", "")
            for idx in np.ndindex(w.shape):
                w[idx] = core.var(f"{base}t{t}_" + "_".join(str(i) for i in idx))
        if hasattr(self.mdl, "W_skip_"):
            # the hierarchical proximal step that follows is only defined for non-zero skip rows (C05's scope)
            Ws = self.mdl.W_skip_
            groups = getattr(self.mdl, "groups_", None) or [[j] for j in range(Ws.shape[0])]
            for g in groups:
                harness.assume(core.sym_sqrt(sum((to_rat(x) * to_rat(x) for j in g for x in Ws[j]), K(0))) > 0)

    def current_param_names(self):
        pn = param_names(self.family)
        if pn is not None:
            return pn
        return ["leaf_scores_"] + [f"cut_points[{i}]" for i, _ in self.mdl.cut_points_list_]

    def _rows_of(self, Xb):
        rows = []
        Xb = np.asarray(Xb, dtype=object)
        src = self.Xfit if getattr(self, "Xfit", None) is not None else self.X
        for r in range(Xb.shape[0]):
            hit = None
            for i in range(src.shape[0]):
                if all(to_rat(Xb[r, j]).key() == to_rat(src[i, j]).key() for j in range(src.shape[1])):
                    hit = i
                    break
            rows.append(hit)
        return rows

    def run_fit(self):
        self.Xfit = None
        if BASE[self.family] == "kernelrim":
            # KernelRIM.fit replaces X by the training kernel before the generic loop
            pass
        try:
            self.mdl.fit(self.X, self.y)
            self.completed = True
        except StopFit:
            self.completed = False
        return self

    # ---- the reference objective of one step, on the terms of that step's own forward pass
    def reference_objective(self, step):
        call = step["gem"]
        y_pred = call["y_pred"]
        aff = call["affinity"]
        inner = loader.load("gemini._utils")
        gem = self.mdl.get_gemini().inner if hasattr(self.mdl.get_gemini(), "inner") else self.mdl.get_gemini()
        S = gem.evaluate(np.array(y_pred, dtype=object, copy=True), aff, return_grad=False)
        if isinstance(S, np.ndarray):
            S = S.reshape(-1)[0]
        S = to_rat(S)
        params = dict(step["params"])
        if self.family == "RIM":
            W = params["W_"]
            S = S - to_rat(self.mdl.reg) * sum((to_rat(x) * to_rat(x) for x in W.reshape(-1)), K(0))
        if self.family == "KernelRIM":
            # documented kernel-weighted l2: reg * tr(W^T K W) with K the TRAINING kernel (sample order of the data,
            # whatever order the batch was drawn in)
            W = params["W_"]
            Kt = self.training_kernel()
            t = K(0)
            for k in range(W.shape[1]):
                for i in range(W.shape[0]):
                    for j in range(W.shape[0]):
                        t = t + to_rat(W[i, k]) * to_rat(Kt[i, j]) * to_rat(W[j, k])
            S = S - to_rat(self.mdl.reg) * t
        if self.mlcl:
            rows = step["rows"]
            f = to_rat(self.factor)
            for (a, b), sgn in [(p, +1) for p in self.cl] + [(p, -1) for p in self.ml]:
                if a in rows and b in rows:
                    ia, ib = rows.index(a), rows.index(b)
                    d2 = sum(((to_rat(y_pred[ia, k]) - to_rat(y_pred[ib, k])) ** 2 for k in range(y_pred.shape[1])), K(0))
                    S = S + sgn * f * Fraction(1, 2) * d2
        return S


class PathEnv(FitEnv):
    """the regularisation path of a sparse model in the stub environment: real `path` / `_path` / `compute_val_score` / `_batchify`,
    with the selected-feature count scripted (d while training, then 0) so that exactly `outer` outer steps are made"""

    def __init__(self, family, shape, outer=1, dynamic=False, y_given=False, **kw):
        kw.setdefault("stop_after_training", False)
        kw.setdefault("final_infer", "concrete")
        hyper = dict(kw.pop("hyper", None) or {})
        hyper.setdefault("dynamic", dynamic)
        super().__init__(family, shape, hyper=hyper, **kw)
        self.outer = outer
        self.y_given = y_given
        d = self.dm["d"]
        self.nsel_calls = 0
        env = self
        self.val_calls = []

        class _N(int):
            def item(self):
                return int(self)

        def nsel():
            # loop condition, recorded count and the all-features test read it three times per outer step
            env.nsel_calls += 1
            done_steps = env.path_epochs_done()
            return _N(d if done_steps < env.outer else 0)
        self.mdl._n_selected_features = nsel
        self.mdl.get_selection = lambda: np.arange(d)
        inner_pp = self.mdl.predict_proba

        def pp(Xb):
            env.val_calls.append({"rows": env._rows_of(Xb)})
            m = len(Xb)
            return np.array([[core.var(f"vp{len(env.val_calls)}_{i}_{k}", "+") for k in range(env.dm["K"])] for i in range(m)], dtype=object)
        self.mdl.predict_proba = pp
        if y_given:
            self.y = harness.free_matrix(self.n, self.n, "pre")     # a user matrix: not assumed symmetric (rows and columns must both follow the batch)

    def path_epochs_done(self):
        per_epoch = -(-self.n // (self.batch_size or self.n))
        fit_steps = self.max_iter * per_epoch
        return max(0, (len(self.steps) - fit_steps)) // per_epoch

    def expected_steps(self):
        per_epoch = -(-self.n // (self.batch_size or self.n))
        return self.max_iter * per_epoch * (1 + self.outer)

    def run_path(self, **kw):
        import warnings
        with warnings.catch_warnings(record=True) as wl:
            warnings.simplefilter("always")
            self.path_result = self.mdl.path(self.X, self.y, min_features=max(1, self.dm["d"] - 1) if self.dm["d"] > 1 else 0.5, **kw)
        self.path_warnings = [str(w.message) for w in wl]
        return self


def numbers_register():
    import numbers
    try:
        numbers.Real.register(Rat)
    except Exception:
        pass


numbers_register()


# ----------------------------------------------------------------------------------------------------------------------
# concrete replay of a loop finding: real fit with a recording optimiser, finite differences of the real objective


def _replay_loop(rep, verbose):
    import importlib
    family, shape = rep["family"], tuple(rep["shape"])
    dm = dims(family, shape)
    cls, mod = get_class(family, symbolic=False)
    base = loader.real("_base_gemini")
    rng = np.random.default_rng(3)
    n, d, Kc = max(dm["n"], dm["K"]), dm["d"], dm["K"]      # the public fit needs at least n_clusters samples
    X = rng.normal(size=(n, d if BASE[family] not in ("cat", "kernelrim") else max(d, 2) if BASE[family] == "cat" else 2)) * 1.3
    records = []

    class Rec:
        def __init__(self, params, lr=0.001, *a, **kw):
            self.params = params
            self.learning_rate = lr

        def update_params(self, params, grads):
            records.append(([np.array(p, copy=True) for p in params], [np.array(g, copy=True) for g in grads]))
            for p in params:
                p += rng.normal(size=p.shape) * 0.5       # move far from the initialisation, like the symbolic recorder

    saved = {}
    mods = [base, mod]
    for m in mods:
        for nm in ("SGDOptimizer", "AdamOptimizer"):
            if hasattr(m, nm):
                saved[(m, nm)] = getattr(m, nm)
                setattr(m, nm, Rec)
    try:
        # constrained pairs meet (or are split across) batches differently in every epoch: several epochs for the decorated models
        kw = dict(n_clusters=Kc, max_iter=(8 if rep.get("mlcl") else 1), solver=rep.get("solver", "adam"), random_state=0)
        if BASE[family] != "cat":
            kw["batch_size"] = rep.get("batch_size")
        if BASE[family] in ("mlp", "smlp"):
            kw["n_hidden_dim"] = dm["h"]
        if BASE[family] == "douglas":
            kw["n_cuts"] = dm["cuts"]
        if family not in ("RIM", "KernelRIM"):
            kw["gemini"] = rep.get("gemini", "mi")
        else:
            kw["reg"] = 0.37
        mdl = cls(**kw)
        calls = []
        inner_infer = mdl._infer

        def infer(Xb, retain=True):
            out = inner_infer(Xb, retain)
            calls.append((np.array(Xb, copy=True), np.array(out, copy=True)))
            return out
        mdl._infer = infer
        gcalls = []
        inner_get = mdl.get_gemini

        class Spy:
            def __init__(self, g):
                self.g = g

            def __call__(self, yp, aff, return_grad=False):
                gcalls.append((np.array(yp, copy=True), None if aff is None else np.array(aff, copy=True), len(calls) - 1))
                return self.g(yp, aff, return_grad)

            def compute_affinity(self, X, y=None):
                return self.g.compute_affinity(X, y)
        mdl.get_gemini = lambda: Spy(inner_get())
        ml = cl = None
        factor = 0.8
        if rep.get("mlcl"):
            mc = loader.real("mlcl")
            if isinstance(rep.get("mlcl"), dict):
                ml = [list(p) for p in rep["mlcl"].get("ml", [])] or None
                cl = [list(p) for p in rep["mlcl"].get("cl", [])] or None
            else:
                ml, cl = ([[0, 1]] if n >= 2 else None), ([[0, 2]] if n >= 3 else None)
            mdl = mc.add_mlcl_constraint(mdl, must_link=ml, cannot_link=cl, factor=factor)
        mdl.fit(X)
        gem = inner_get()
        names = param_names(family) or (["leaf_scores_"] + [f"cut_points[{i}]" for i in range(dm["d"])])
        worst = 0.0
        for si, (ws, gs) in enumerate(records):
            if si >= len(gcalls):
                break
            yp, aff, ci = gcalls[si]
            Xb = calls[ci][0]
            rows = [int(np.argmin(np.abs(X - r).sum(1))) if BASE[family] not in ("kernelrim",) else None for r in Xb]

            def objective(wlist):
                # set weights, forward on the batch, GEMINI - penalty
                cur = mdl._get_weights() if not rep.get("mlcl") else mdl._get_weights()
                olds = [np.array(c, copy=True) for c in cur]
                for c, w in zip(cur, wlist):
                    c[...] = w
                P = inner_infer(Xb, False) if BASE[family] != "cat" else inner_infer(Xb)
                val = float(gem(P, aff))
                if family == "RIM":
                    val -= mdl.reg * float(np.sum(wlist[0] ** 2))
                if family == "KernelRIM":
                    Kt = mdl._compute_kernel(mdl.input_data_)
                    val -= mdl.reg * float(np.trace(wlist[0].T @ Kt @ wlist[0]))
                if rep.get("mlcl"):
                    for pairs, sg in ((cl, +1), (ml, -1)):
                        for a, b in (pairs or []):
                            if a in rows and b in rows:
                                ia, ib = rows.index(a), rows.index(b)
                                val += sg * factor * 0.5 * float(np.sum((P[ia] - P[ib]) ** 2))
                for c, o in zip(cur, olds):
                    c[...] = o
                return val
            for pi, (w, g) in enumerate(zip(ws, gs)):
                if g.shape != w.shape:
                    return True
                for idx in np.ndindex(w.shape):
                    h = 1e-6 * max(1.0, abs(w[idx]))
                    wp = [np.array(x, copy=True) for x in ws]
                    wm = [np.array(x, copy=True) for x in ws]
                    wp[pi][idx] += h
                    wm[pi][idx] -= h
                    fd = -(objective(wp) - objective(wm)) / (2 * h)
                    err = abs(fd - g[idx]) / max(1.0, abs(fd), abs(g[idx]))
                    if verbose and err > 1e-5:
                        print(f"step {si} {names[pi] if pi < len(names) else pi}{list(idx)}: handed to optimiser {g[idx]:.9g}, -d(objective)/dtheta {fd:.9g}")
                    if err > 1e-4 and (rep.get("param") is None or (pi < len(names) and names[pi] == rep.get("param"))):
                        worst = max(worst, err)
        return worst > 1e-4
    finally:
        for (m, nm), v in saved.items():
            setattr(m, nm, v)
