"""C10 -- mini-batches partition the data and stay aligned with the affinity matrix.

The REAL ``fit`` (and the real ``_batchify`` generators, plain and mlcl-decorated, parametric and categorical) run in the
stubbed environment of checks.common_models on SYMBOLIC data and a SYMBOLIC affinity, for EVERY permutation the RNG can
return (n <= 3: all n! per epoch; n = 4: all 24 for one epoch) and every batch_size in 1..n+1 and None.  From the recorded
trace of optimiser steps: per epoch the batches are disjoint, cover every sample once, hold <= batch_size rows; the
affinity block handed to the GEMINI with a batch is, entry by entry, the TERM A[i,j] of the full matrix for the samples
i, j of the batch rows in the same order; steps == max_iter*ceil(n/batch_size) and n_iter_ == max_iter; nonparametric
models see the full data; decoration records the true sample indices of each batch.
"""
from __future__ import annotations

import itertools
import time
from fractions import Fraction

import numpy as np

from symx import core, harness, loader, runner
from symx.core import to_rat
from symx.explore import Explorer, PathError
from . import common_models as cm

PROP = "C10"


def check_trace(trace, n, batch_size, max_iter, categorical, A_full, same):
    """trace: list of steps {rows: [sample ids or None], affinity: matrix or None, indices: recorded mlcl indices or None}
    same(a, b): equality of two affinity entries.  returns list of (name, ok, sig, what)."""
    out = []
    bs = n if (batch_size is None or categorical) else batch_size
    per_epoch = 1 if categorical else -(-n // bs)
    out.append((f"steps == max_iter*ceil(n/batch_size) = {max_iter * per_epoch}", len(trace) == max_iter * per_epoch, f"{PROP}:step-count",
                f"fit performs {len(trace)} optimiser steps instead of max_iter*ceil(n/batch_size) = {max_iter * per_epoch}"))
    for e in range(max_iter):
        steps = trace[e * per_epoch:(e + 1) * per_epoch]
        rows = [r for s in steps for r in s["rows"]]
        known = all(r is not None for r in rows)
        out.append((f"epoch {e}: every batch row is a training sample", known, f"{PROP}:foreign-row", "a batch contains a row that is not a training sample"))
        if not known:
            continue
        out.append((f"epoch {e}: batches are disjoint", len(rows) == len(set(rows)), f"{PROP}:overlap", "a sample appears in two batches of one epoch"))
        out.append((f"epoch {e}: batches cover every sample", set(rows) == set(range(n)), f"{PROP}:coverage", "a training sample is in no batch of the epoch"))
        out.append((f"epoch {e}: every batch has <= batch_size rows", all(len(s["rows"]) <= bs for s in steps), f"{PROP}:batch-size", "a batch holds more than batch_size rows"))
        if categorical:
            out.append((f"epoch {e}: nonparametric model sees the full data in order", all(s["rows"] == list(range(n)) for s in steps), f"{PROP}:categorical-full",
                        "a nonparametric model does not see the full data"))
        for si, s in enumerate(steps):
            if A_full is None:
                out.append((f"epoch {e} step {si}: no affinity is passed through as None", s["affinity"] is None, f"{PROP}:affinity-none", "an affinity appears although the GEMINI needs none"))
            else:
                Ab = s["affinity"]
                ok = Ab is not None and np.shape(Ab) == (len(s["rows"]), len(s["rows"]))
                if ok:
                    for a, ra in enumerate(s["rows"]):
                        for b, rb in enumerate(s["rows"]):
                            if not same(Ab[a][b] if not hasattr(Ab, "shape") else Ab[a, b], A_full[ra, rb]):
                                ok = False
                out.append((f"epoch {e} step {si}: affinity block == A[rows][:, rows]", ok, f"{PROP}:affinity-misaligned",
                            "the affinity block delivered with a batch is not the rows/columns of the batch's samples in the same order"))
            if s.get("indices") is not None:
                out.append((f"epoch {e} step {si}: recorded indices == true sample indices", list(s["indices"]) == list(s["rows"]), f"{PROP}:mlcl-indices",
                            "constraint decoration records indices that are not the sample indices of the batch rows"))
    return out


def job(family, shape, gemini, batch_size, max_iter, perms, mlcl=False, precomputed=False, refit_from=None, real_gemini=False):
    """precomputed: the affinity is a user matrix handed over as y (kernel='precomputed'); it is NOT assumed symmetric, so that rows and
    columns of every block must both follow the order of the batch"""
    loader.install()
    res = {"paths": 0, "queries": 0, "obligations": [], "violations": [], "validated": 0, "witnesses": 0, "samples": []}
    dm = cm.dims(family, shape)
    n = dm["n"]
    categorical = cm.BASE[family] == "cat"
    seen = set()
    for perm_seq in perms:
        box = {}

        def setup():
            core.CTX.merge_sign = True
            # real_gemini: the objective itself runs symbolically (on a single-sample batch most GEMINI gradients are identically zero: the
            # optimiser step must be made all the same)
            env = cm.FitEnv(family, shape, gemini=gemini, batch_size=batch_size, max_iter=max_iter, mlcl=mlcl, stop_after_training=False, gemini_stub=not real_gemini, final_infer="concrete")
            seq = list(perm_seq)
            counter = {"i": 0}

            def next_perm(m):
                if seq and m != len(seq[0]):
                    return list(range(m))[::-1]       # a fit on another dataset (the refit jobs): not the one under scrutiny
                p = seq[counter["i"] % len(seq)]
                counter["i"] += 1
                return list(p)
            env.next_perm = next_perm
            box["env"] = env
            if precomputed:
                gm = loader.load("gemini")
                env.mdl.gemini = gm.MMDGEMINI(kernel="precomputed")
                env.y = harness.free_matrix(n, n, "pre")
            if mlcl:
                # record the indices the decoration exposes at the time the gradients are computed
                inner = env.mdl._compute_grads
                env.recorded_indices = []

                def spy(X, y_pred, gradient):
                    env.recorded_indices.append(list(env.mdl._batchify.indices))
                    return inner(X, y_pred, gradient)
                env.mdl._compute_grads = spy
            return env

        def body(env):
            if refit_from:
                # the same (possibly decorated) estimator was fitted on a SHORTER dataset before: nothing sized by that fit may survive
                X_keep, n_keep = env.X, env.n
                env.X, env.n = harness.free_matrix(refit_from, X_keep.shape[1], "small"), refit_from
                env.run_fit()
                env.X, env.n = X_keep, n_keep
                env.steps.clear(); env.gem_calls.clear(); env.infer_calls.clear()
                if hasattr(env, "affinity_log"):
                    env.affinity_log = []
                if mlcl:
                    env.recorded_indices.clear()
            env.run_fit()
            return env

        ex = Explorer(max_paths=400)
        tagbase = f"{family}/{cm.shape_str(shape)}/{gemini}/bs{batch_size}/it{max_iter}{'/mlcl' if mlcl else ''}{'/precomputed' if precomputed else ''}{'/refit-from-n%d' % refit_from if refit_from else ''}{'/real-gemini' if real_gemini else ''}/perm{'-'.join(''.join(map(str, p)) for p in perm_seq)}"
        first = True
        for out, pc, trace in ex.run(body, setup):
            res["paths"] += 1
            if isinstance(out, PathError):
                res["obligations"].append({"name": tagbase + "/path-error", "verdict": "inconclusive", "how": repr(out)[:300]})
                continue
            if not first:
                continue        # the remaining paths only differ in the final arg-max of labels_
            first = False
            env = out
            A_full = env.y if precomputed else None
            for rec in getattr(env, "affinity_log", []):
                if rec["Y"] is None and not precomputed:
                    A_full = rec["value"]
            tr = []
            for si, s in enumerate(env.steps):
                aff = s["gem"]["affinity"] if s["gem"] is not None else None
                tr.append({"rows": s["rows"], "affinity": aff, "indices": (env.recorded_indices[si] if mlcl and si < len(env.recorded_indices) else None)})
            same = lambda a, b: to_rat(a).key() == to_rat(b).key()
            checks = check_trace(tr, n, batch_size, max_iter, categorical, A_full, same)
            checks.append(("n_iter_ == max_iter", getattr(env.mdl, "n_iter_", None) == max_iter, f"{PROP}:n_iter", "n_iter_ does not reflect max_iter"))
            for nm, ok, sig, what in checks:
                res["obligations"].append({"name": f"{tagbase}/{nm}", "verdict": "unsat" if ok else "sat", "how": "term-identity"})
                if not ok and sig not in seen:
                    rep = {"family": family, "shape": list(shape), "gemini": gemini, "batch_size": batch_size, "max_iter": max_iter, "mlcl": mlcl, "precomputed": precomputed, "refit_from": refit_from, "expect": sig}
                    got = replay(rep)
                    if got and sig in got:
                        seen.add(sig)
                        res["violations"].append({"signature": sig, "what": f"{family} (batch_size={batch_size}, n={n}{', mlcl' if mlcl else ''}): {what}", "replay": rep})
                    else:
                        res["obligations"][-1]["verdict"] = "inconclusive"
            if len(res["samples"]) < 1:
                res["samples"].append({"config": tagbase, "batches": [s["rows"] for s in tr]})
    return res


def job_path(family, shape, batch_size, y_given, max_paths=40):
    """the regularisation path: its own training loop and the validation-score blocks of compute_val_score"""
    loader.install()
    res = {"paths": 0, "queries": 0, "obligations": [], "violations": [], "validated": 0, "witnesses": 0, "samples": []}
    dm = cm.dims(family, shape)
    n = dm["n"]
    box = {}

    def setup():
        core.CTX.merge_sign = True
        env = cm.PathEnv(family, shape, gemini="mmd_ova", batch_size=batch_size, max_iter=1, gemini_stub=True, y_given=y_given,
                         hyper=({"gemini": None} if False else None))
        if y_given:
            gm = loader.load("gemini")
            env.mdl.gemini = gm.MMDGEMINI(kernel="precomputed")
        box["env"] = env
        return env

    ex = Explorer(max_paths=max_paths)
    tagbase = f"path/{family}/{cm.shape_str(shape)}/bs{batch_size}/{'precomputed' if y_given else 'computed'}"
    seen = set()
    done_sigs = set()
    for out, pc, trace in ex.run(lambda env: env.run_path(), setup):
        res["paths"] += 1
        if isinstance(out, PathError):
            res["obligations"].append({"name": tagbase + "/path-error", "verdict": "inconclusive", "how": repr(out)[:300]})
            continue
        env = out
        A_full = env.y if y_given else None
        if A_full is None:
            for rec in getattr(env, "affinity_log", []):
                if rec["Y"] is None and len(rec["X"]) == n:
                    A_full = rec["value"]
        same = lambda a, b: to_rat(a).key() == to_rat(b).key()
        # training steps: fit epoch + path epochs
        tr = [{"rows": s_["rows"], "affinity": (s_["gem"]["affinity"] if s_["gem"] is not None else None), "indices": None} for s_ in env.steps]
        checks = [(f"training (fit + {env.outer} path step): " + nm, ok, sig, what) for nm, ok, sig, what in check_trace(tr, n, batch_size, 1 + env.outer, False, A_full, same)]
        # validation blocks: sequential blocks of batch_size rows covering the data once per evaluation; affinity block aligned
        bs = batch_size or n
        blocks = [list(range(j, min(j + bs, n))) for j in range(0, n, bs)]
        vals = [v["rows"] for v in env.val_calls]
        okv = len(vals) % len(blocks) == 0 and all(vals[i] == blocks[i % len(blocks)] for i in range(len(vals))) and len(vals) > 0
        checks.append(("validation score: sequential blocks of batch_size rows, each sample once per evaluation", okv, f"{PROP}:validation-blocks", "compute_val_score does not visit the data in sequential blocks covering every sample once"))
        vcalls = [c for c in env.gem_calls if not c["return_grad"]]
        if y_given and okv:
            oka = len(vcalls) == len(vals)
            for c, rows in zip(vcalls, vals):
                Ab = c["affinity"]
                oka = oka and Ab is not None and np.shape(Ab) == (len(rows), len(rows)) and all(same(Ab[a][b], A_full[ra, rb]) for a, ra in enumerate(rows) for b, rb in enumerate(rows))
            checks.append(("validation score: the affinity block is y[block][:, block]", oka, f"{PROP}:validation-affinity", "compute_val_score slices the precomputed affinity wrongly"))
        key = tuple((nm, ok) for nm, ok, _, _ in checks)
        if key in done_sigs:
            continue        # the remaining paths differ only in proximal / early-stopping branches
        done_sigs.add(key)
        for nm, ok, sig, what in checks:
            res["obligations"].append({"name": f"{tagbase}/{nm}", "verdict": "unsat" if ok else "sat", "how": "term-identity"})
            if not ok and sig not in seen:
                rep = {"kind": "path", "family": family, "shape": list(shape), "batch_size": batch_size, "y_given": y_given, "expect": sig}
                got = replay(rep)
                if got and sig in got:
                    seen.add(sig)
                    res["violations"].append({"signature": sig, "what": f"{family}.path (batch_size={batch_size}, {'precomputed' if y_given else 'computed'} affinity): {what}", "replay": rep})
                else:
                    res["obligations"][-1]["verdict"] = "inconclusive"
        if len(res["samples"]) < 1:
            res["samples"].append({"config": tagbase, "training_batches": [t["rows"] for t in tr], "validation_blocks": vals[:6]})
    return res


def _replay_path(rep, verbose=False):
    """REAL path() on tagged data with a precomputed tagged affinity; spies on _infer / predict_proba / GEMINI"""
    family, shape = rep["family"], tuple(rep["shape"])
    dm = cm.dims(family, shape)
    n, Kc, d = max(dm["n"], 5), dm["K"], max(dm["d"], 3)
    cls, mod = cm.get_class(family, symbolic=False)
    gem_mod = loader.real("gemini")
    sigs = set()
    bs = rep["batch_size"]
    for seed in range(6):
        X = np.arange(n, dtype=float).reshape(-1, 1) * np.ones((1, d)) + np.arange(d) * 0.001
        A = np.array([[100.0 * min(i, j) + max(i, j) + 0.5 for j in range(n)] for i in range(n)])
        kw = dict(n_clusters=Kc, max_iter=2, batch_size=bs, random_state=seed, alpha=0.5, gemini=gem_mod.MMDGEMINI(kernel="precomputed"))
        if cm.BASE[family] == "smlp":
            kw["n_hidden_dim"] = 2
        mdl = cls(**kw)
        train, vals = [], []
        state = {"last": None}
        inner_infer = mdl._infer
        inner_pp = mdl.predict_proba

        def rows_of(Xb):
            return [int(round(r[0])) for r in np.asarray(Xb)]

        def infer(Xb, retain=True):
            if retain:
                state["last"] = ("train", rows_of(Xb))
            return inner_infer(Xb, retain)

        def pp(Xb):
            state["last"] = ("val", rows_of(Xb))
            return inner_pp(Xb)
        mdl._infer, mdl.predict_proba = infer, pp
        inner_get = mdl.get_gemini

        class Spy:
            def __init__(self, g):
                self.g = g

            def __call__(self, yp, aff, return_grad=False):
                kind, rows = state["last"]
                (train if return_grad else vals).append({"rows": rows, "affinity": None if aff is None else np.array(aff, copy=True), "indices": None})
                return self.g(yp, aff, return_grad)

            def compute_affinity(self, X, y=None):
                return self.g.compute_affinity(X, y)
        mdl.get_gemini = lambda: Spy(inner_get())
        import warnings
        try:
            with warnings.catch_warnings():
                warnings.simplefilter("ignore")
                mdl.path(X, A, min_features=d - 1, alpha_multiplier=50.0, max_patience=1)
        except Exception as e:
            if verbose:
                print("path raised", type(e).__name__, e)
            sigs.add(f"{PROP}:fit-raises")
            continue
        same = lambda a, b: abs(float(a) - float(b)) < 1e-12
        per = -(-n // (bs or n))
        epochs = len(train) // per if per else 0
        for nm, ok, sig, what in check_trace(train, n, bs, max(epochs, 1), False, A, same):
            if not ok and "step-count" not in sig:
                sigs.add(sig)
                if verbose:
                    print(f"seed {seed}: training {nm} FAILS")
        b = bs or n
        blocks = [list(range(j, min(j + b, n))) for j in range(0, n, b)]
        vr = [v["rows"] for v in vals]
        if not (len(vr) % len(blocks) == 0 and all(vr[i] == blocks[i % len(blocks)] for i in range(len(vr)))):
            sigs.add(f"{PROP}:validation-blocks")
        else:
            for v in vals:
                rows = v["rows"]
                if v["affinity"] is None or v["affinity"].shape != (len(rows), len(rows)) or not np.allclose(v["affinity"], A[np.ix_(rows, rows)]):
                    sigs.add(f"{PROP}:validation-affinity")
    return sigs


def replay(rep, verbose=False):
    """REAL fit on tagged concrete data (row i carries the value i, affinity entry (i,j) carries 100*i+j+0.5), over many seeds;
    returns the set of violation signatures observed."""
    if rep.get("kind") == "path":
        return _replay_path(rep, verbose)
    family, shape = rep["family"], tuple(rep["shape"])
    dm = cm.dims(family, shape)
    n, Kc = dm["n"], dm["K"]
    cls, mod = cm.get_class(family, symbolic=False)
    base = loader.real("_base_gemini")
    gem_mod = loader.real("gemini")
    sigs = set()
    categorical = cm.BASE[family] == "cat"
    needs_aff = rep["gemini"].startswith("mmd") or rep["gemini"].startswith("wasserstein")
    for seed in range(12):
        d = max(dm["d"], 1)
        X = np.arange(n, dtype=float).reshape(-1, 1) * np.ones((1, d)) + np.arange(d) * 0.001
        A = np.array([[100.0 * min(i, j) + max(i, j) + 0.5 for j in range(n)] for i in range(n)])
        if rep.get("precomputed"):
            A = np.array([[100.0 * i + j + 0.5 for j in range(n)] for i in range(n)])      # a user matrix need not be symmetric
        trace = []
        calls = {}

        class Rec:
            def __init__(self, params, lr=0.001, *a, **kw):
                self.learning_rate = lr

            def update_params(self, params, grads):
                trace.append(dict(calls.get("last", {})))
        saved = {}
        for m in (base, mod):
            for nm in ("SGDOptimizer", "AdamOptimizer"):
                if hasattr(m, nm):
                    saved[(m, nm)] = getattr(m, nm)
                    setattr(m, nm, Rec)
        try:
            kw = dict(n_clusters=Kc, max_iter=rep["max_iter"], random_state=seed)
            if not categorical:
                kw["batch_size"] = rep["batch_size"]
            if cm.BASE[family] in ("mlp", "smlp"):
                kw["n_hidden_dim"] = dm["h"]
            if needs_aff:
                kw["gemini"] = gem_mod.MMDGEMINI(kernel="precomputed") if rep["gemini"].startswith("mmd") else gem_mod.WassersteinGEMINI(metric="precomputed")
            else:
                kw["gemini"] = rep["gemini"]
            mdl = cls(**kw)
            inner_get = mdl.get_gemini

            class Spy:
                def __init__(self, g):
                    self.g = g

                def __call__(self, yp, aff, return_grad=False):
                    calls["last"]["affinity"] = None if aff is None else np.array(aff, copy=True)
                    return self.g(yp, aff, return_grad)

                def compute_affinity(self, X, y=None):
                    return self.g.compute_affinity(X, y)
            mdl.get_gemini = lambda: Spy(inner_get())
            inner_infer = mdl._infer

            def infer(Xb, retain=True):
                rows = [int(round(r[0])) if 0 <= round(r[0]) < n and abs(r[0] - round(r[0])) < 1e-9 else None for r in np.asarray(Xb)]
                calls["last"] = {"rows": rows, "affinity": None, "indices": None}
                return inner_infer(Xb, retain)
            mdl._infer = infer
            if rep.get("mlcl"):
                mc = loader.real("mlcl")
                mdl = mc.add_mlcl_constraint(mdl, must_link=[[0, 1]] if n >= 2 else None, cannot_link=[[0, 2]] if n >= 3 else None, factor=0.75)
                inner_cg = mdl._compute_grads

                def cg_spy(Xb, yp, g):
                    calls["last"]["indices"] = list(mdl._batchify.indices)
                    return inner_cg(Xb, yp, g)
                mdl._compute_grads = cg_spy
            try:
                if rep.get("refit_from"):
                    m0 = rep["refit_from"]
                    mdl.fit(X[:m0] + 50.0, (A[:m0, :m0] if needs_aff else None))
                    trace.clear()
                mdl.fit(X, A if needs_aff else None)
            except Exception as e:
                sigs.add(f"{PROP}:fit-raises")
                if verbose:
                    print("fit raised", type(e).__name__, e)
                continue
            # the last _infer call (labels_) is not a step; trace entries were copied at update time
            same = lambda a, b: abs(float(a) - float(b)) < 1e-12
            for nm, ok, sig, what in check_trace(trace, n, rep["batch_size"], rep["max_iter"], categorical, A if needs_aff else None, same):
                if not ok:
                    sigs.add(sig)
                    if verbose:
                        print(f"seed {seed}: {nm} FAILS -- batches {[s['rows'] for s in trace]}")
            if getattr(mdl, "n_iter_", None) != rep["max_iter"]:
                sigs.add(f"{PROP}:n_iter")
        finally:
            for (m, nm), v in saved.items():
                setattr(m, nm, v)
    return sigs


def jobs(tier):
    q = tier == "quick"
    out = []

    def perms_for(n, max_iter):
        allp = list(itertools.permutations(range(n)))
        if max_iter == 1:
            return [(p,) for p in allp]
        if n <= 2 or not q:
            return list(itertools.product(allp, repeat=2)) if n <= 3 else [(p, p[::-1]) for p in allp]
        return [(p, allp[(i * 5 + 1) % len(allp)]) for i, p in enumerate(allp)]
    configs = []
    for n in (2, 3):
        for bs in list(range(1, n + 2)) + [None]:
            for gem in ("mi", "mmd_ova"):
                configs.append(("LinearModel", (n, 1, 2), gem, bs, 1, False))
            configs.append(("LinearModel", (n, 1, 2), "mmd_ova", bs, 2, False))
    configs += [("CategoricalModel", (3, 2), "mmd_ova", None, 2, False), ("CategoricalModel", (2, 2), "mi", None, 1, False)]
    for bs in (1, 2, 3, 4, None):
        configs.append(("LinearModel", (3, 1, 2), "mmd_ova", bs, 1, True))
    configs.append(("CategoricalModel", (3, 2), "mmd_ova", None, 1, True))
    configs.append(("MLPModel", (3, 1, 1, 2), "mmd_ova", 2, 1, False))
    if not q:
        for bs in (1, 2, 3, 4, 5, None):
            configs.append(("LinearModel", (4, 1, 2), "mmd_ova", bs, 1, False))
            configs.append(("LinearModel", (4, 1, 2), "mmd_ova", bs, 1, True))
        configs += [("SparseLinearModel", (3, 1, 2), "mmd_ova", 2, 1, False), ("Douglas", (3, 1, 1, 2), "wasserstein_ova", 2, 1, False),
                    ("RIM", (3, 1, 2), "mi", 2, 2, False)]
    for fam, sh, bs, yg in [("SparseLinearModel", (3, 1, 2), 2, True), ("SparseLinearModel", (3, 1, 2), None, True), ("SparseLinearModel", (3, 1, 2), 2, False),
                            ("SparseMLPModel", (3, 1, 1, 2), 2, True)] + ([] if q else [("SparseLinearModel", (4, 1, 2), 3, True), ("SparseLinearModel", (3, 2, 2), 1, True), ("SparseMLPModel", (3, 1, 1, 2), None, False)]):
        out.append({"name": f"path/{fam}/{cm.shape_str(sh)}/bs{bs}/{'precomputed' if yg else 'computed'}", "target": "checks.c10:job_path",
                    "kwargs": dict(family=fam, shape=sh, batch_size=bs, y_given=yg), "timeout": 280 if q else 1800})
    # longer inputs (several full batches plus a trailing partial one) under a few fixed permutations per epoch
    long_perms = lambda n: [(tuple(range(n)),), (tuple(range(n))[::-1],), (tuple((i * 3 + 2) % n for i in range(n)),)]
    for n_, bss in ([(7, (2, 3, 5))] if q else [(7, (2, 3, 5)), (10, (3, 4, 7)), (13, (4, 6))]):
        for bs in bss:
            for ml in (False, True):
                out.append({"name": f"LinearModel/{n_}x1x2/mmd_ova/bs{bs}/it1{'/mlcl' if ml else ''}/long", "target": "checks.c10:job",
                            "kwargs": dict(family="LinearModel", shape=(n_, 1, 2), gemini="mmd_ova", batch_size=bs, max_iter=1, perms=long_perms(n_), mlcl=ml), "timeout": 280 if q else 1800})
        out.append({"name": f"path/SparseLinearModel/{n_}x1x2/bs{bss[1]}/precomputed/long", "target": "checks.c10:job_path",
                    "kwargs": dict(family="SparseLinearModel", shape=(n_, 1, 2), batch_size=bss[1], y_given=True), "timeout": 280 if q else 1800})
    for fam_, sh_, bs, ml in [("LinearModel", (3, 1, 2), 2, True), ("LinearModel", (3, 1, 2), None, True), ("LinearModel", (3, 1, 2), 2, False), ("CategoricalModel", (3, 2), None, True)]:
        n_ = cm.dims(fam_, sh_)["n"]
        out.append({"name": f"{fam_}/{cm.shape_str(sh_)}/mmd_ova/bs{bs}/it1{'/mlcl' if ml else ''}/refit-from-n2", "target": "checks.c10:job",
                    "kwargs": dict(family=fam_, shape=sh_, gemini="mmd_ova", batch_size=bs, max_iter=1, perms=perms_for(n_, 1), mlcl=ml, refit_from=2), "timeout": 280 if q else 1800})
    for n_, bs in [(2, 1), (3, 2)]:
        out.append({"name": f"LinearModel/{n_}x1x2/mi/bs{bs}/it1/real-gemini", "target": "checks.c10:job",
                    "kwargs": dict(family="LinearModel", shape=(n_, 1, 2), gemini="mi", batch_size=bs, max_iter=1, perms=perms_for(n_, 1)[:2], real_gemini=True), "timeout": 280 if q else 1800})
    for bs, ml in [(2, False), (None, False), (2, True), (4, False)]:
        out.append({"name": f"LinearModel/3x1x2/mmd_ova/bs{bs}/it1{'/mlcl' if ml else ''}/precomputed", "target": "checks.c10:job",
                    "kwargs": dict(family="LinearModel", shape=(3, 1, 2), gemini="mmd_ova", batch_size=bs, max_iter=1, perms=perms_for(3, 1), mlcl=ml, precomputed=True), "timeout": 280 if q else 1800})
    for fam, sh, gem, bs, it, ml in configs:
        n = cm.dims(fam, sh)["n"]
        out.append({"name": f"{fam}/{cm.shape_str(sh)}/{gem}/bs{bs}/it{it}{'/mlcl' if ml else ''}", "target": "checks.c10:job",
                    "kwargs": dict(family=fam, shape=sh, gemini=gem, batch_size=bs, max_iter=it, perms=perms_for(n, it), mlcl=ml), "timeout": 280 if q else 1800})
    return out


def run(tier, seed, only=None, nproc=None):
    t0 = time.time()
    js = [j for j in jobs(tier) if not only or only in j["name"]]
    pairs = runner.run_jobs(js, nproc=nproc, seed=seed)
    return runner.finish(
        PROP, tier, seed, pairs, t0,
        assumptions=["the RNG's permutation() may return ANY permutation: all of them are enumerated (per epoch for n<=3)",
                     "data and affinity are symbolic: alignment is identity of terms, not numeric coincidence",
                     "validation stubbed to identity; optimiser replaced by a recorder; pairwise_kernels -> uninterpreted symmetric matrix"],
        bounds={"tier": tier, "configs": len(js), "n": "2..3 (4 thorough) with every permutation; 7 (10, 13 thorough) with three fixed permutations", "batch_size": "1..n+1 and None; 2,3,5 for n=7", "max_iter": "1, 2"})
