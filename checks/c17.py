"""C17 -- results stay finite on degenerate but legal inputs   (claimed in part, see DESIGN)

Claimed: ALGEBRAIC definedness on the input families that are degenerate in exact arithmetic.  The REAL code runs
symbolically (non-strict: ties and exact zeros are reachable) on
  GEMINI evaluate(return_grad=True): duplicated samples, duplicated clusters, a single cluster (K=1), a single sample (n=1), as
      many clusters as samples with one-hot predictions, exactly uniform predictions, constant / all-zero affinity matrices;
  both proximal operators: zero weight rows, zero hidden rows, zero skip rows with zero hidden weights and alpha > 0;
  Douglas: coinciding cut points and duplicated data columns;
and every output must be defined on every feasible path: no unmasked 0/0, log of a non-positive or sqrt of a negative
quantity (x/0 with x != 0 follows IEEE: +-inf, which the code is allowed to clip away).
Not claimed: "features scaled by a thousand" and soft-max saturation -- in exact arithmetic exp never under/overflows, so the
floating-point failure mode the property is also about is invisible to a real-arithmetic encoding.
"""
from __future__ import annotations

import time
from fractions import Fraction

import numpy as np

from symx import core, harness, loader, runner
from symx.core import K, to_rat
from symx.explore import Explorer, PathError
from . import common_gemini as cg

PROP = "C17"


def _new():
    return {"paths": 0, "queries": 0, "obligations": [], "violations": [], "validated": 0, "witnesses": 0, "samples": []}


def gemini_inputs(family, kind, eps):
    """(P, A) for a degenerate family; entries symbolic where the family leaves freedom"""
    def aff(n, mode="free"):
        if kind not in ("mmd", "w"):
            return None
        if mode == "const":
            c = core.var("c", "0+" if kind == "w" else None)
            A = np.empty((n, n), dtype=object)
            for i in range(n):
                for j in range(n):
                    A[i, j] = K(0) if (kind == "w" and i == j) else c
            return A
        if mode == "zero":
            A = np.empty((n, n), dtype=object)
            A.fill(K(0))
            return A
        return harness.symmetric_matrix(n, "a" if kind == "mmd" else "m", sign=("0+" if kind == "w" else None), zero_diag=(kind == "w"))
    if family == "dup-samples":
        P2, _ = harness.simplex_matrix(2, 2, eps, open_=True)
        P = np.array([P2[0], P2[0], P2[1]], dtype=object)
        A = aff(3)
        if A is not None:      # identical samples have identical affinity rows / columns
            A[1, :] = A[0, :]
            A[:, 1] = A[:, 0]
            A[1, 1] = A[0, 0]
            A[0, 1] = A[1, 0] = A[0, 0]
        return P, A
    if family == "dup-clusters":
        x = [core.var(f"x_{i}", "+") for i in range(2)]
        for v in x:
            harness.assume(v < Fraction(1, 2))
            harness.assume(v > eps)
        P = np.array([[x[i], x[i], 1 - 2 * x[i]] for i in range(2)], dtype=object)
        return P, aff(2)
    if family == "K1":
        P = np.empty((2, 1), dtype=object)
        P.fill(K(1))
        return P, aff(2)
    if family == "n1":
        P, _ = harness.simplex_matrix(1, 2, eps, open_=True)
        return P, aff(1)
    if family == "K=n-onehot":
        P = np.empty((3, 3), dtype=object)
        P.fill(K(0))
        for i in range(3):
            P[i, i] = K(1)
        return P, aff(3)
    if family == "uniform":
        P = np.empty((2, 2), dtype=object)
        P.fill(K(Fraction(1, 2)))
        return P, aff(2)
    if family == "const-affinity":
        P, _ = harness.simplex_matrix(2, 2, eps, open_=True)
        return P, aff(2, "const")
    if family == "zero-affinity":
        P, _ = harness.simplex_matrix(2, 2, eps, open_=True)
        return P, aff(2, "zero")
    raise ValueError(family)


FAMILIES = ["dup-samples", "dup-clusters", "K1", "n1", "K=n-onehot", "uniform", "const-affinity", "zero-affinity"]


def job_gemini(label, family, timeout_q=10.0, max_paths=3000):
    loader.install()
    res = _new()
    st = {}

    def setup():
        stub = cg.EmdStub()
        cg.install_ot_stub(stub)
        gem, kind, ovo = cg.build(label)
        core.CTX.merge_sign = True
        P, A = gemini_inputs(family, kind, gem.epsilon)
        st.update(gem=gem, kind=kind, P=P, A=A)
        return P, A

    ex = Explorer(max_paths=max_paths)
    seen = False
    for out, pc, trace in ex.run(lambda a: st["gem"].evaluate(a[0].copy(), None if a[1] is None else a[1].copy(), return_grad=True), setup):
        res["paths"] += 1
        tag = f"gemini/{label}/{family}/path{res['paths']}"
        bad_why = None
        model = None
        if isinstance(out, PathError):
            bad_why = repr(out)[:200]
        else:
            S, G = out
            # a degenerate shape (one cluster, one sample) must not change the SHAPE of what comes back either: training would raise
            okshape = tuple(np.shape(G)) == tuple(np.shape(st["P"]))
            res["obligations"].append({"name": tag + "/gradient has the shape of the predictions", "verdict": "unsat" if okshape else "sat", "how": "syntactic", "shape": list(np.shape(G))})
            if not okshape and not seen:
                rep_s = {"kind": "gemini-shape", "label": label, "family": family}
                if replay(rep_s):
                    seen = True
                    res["violations"].append({"signature": f"{PROP}:{label}:{family}:shape", "what": f"{label}: on the degenerate family '{family}' the gradient has shape {tuple(np.shape(G))}, the predictions {tuple(np.shape(st['P']))} (fit raises)", "replay": rep_s})
                else:
                    res["obligations"][-1]["verdict"] = "inconclusive"
            flat = [S.reshape(-1)[0] if isinstance(S, np.ndarray) else S] + list(np.asarray(G, dtype=object).reshape(-1))
            und = [x for x in flat if isinstance(x, core.UndefinedValue) or (isinstance(x, float) and (x != x or x in (float("inf"), float("-inf"))))]
            if und:
                bad_why = f"undefined value: {und[0]!r}"
            else:
                dres = harness.check_defined([to_rat(x) for x in flat], pc, timeout_s=timeout_q, name=tag + "/defined")
                res["queries"] += dres.get("n_guards", 0)
                if dres["verdict"] == "unsat":
                    res["obligations"].append({k: v for k, v in dres.items() if k != "model"})
                else:
                    bad_why = f"guard not provable: {dres.get('what')}"
                    model = dres.get("model")
                    if dres["verdict"] != "sat":
                        res["obligations"].append({"name": tag + "/defined", "verdict": "unknown", "how": bad_why})
                        continue
        if bad_why is not None:
            if model is None:
                v, model = harness.reachable(pc, timeout_s=8.0)
                res["queries"] += 1
                if v == "unsat":
                    continue
            o = {"name": tag + "/defined", "verdict": "sat", "how": bad_why}
            res["obligations"].append(o)
            rep = {"kind": "gemini", "label": label, "family": family, "model": {k: str(x) for k, x in (model or {}).items() if "!" not in k}}
            if model is not None and replay(rep):
                if not seen:
                    seen = True
                    res["violations"].append({"signature": f"{PROP}:{label}:{family}", "what": f"{label}: score or gradient not finite on the degenerate family '{family}' ({bad_why[:80]})", "replay": rep})
            else:
                o["verdict"] = "inconclusive"
        if len(res["samples"]) < 1:
            res["samples"].append({"obligation": tag, "P": [[repr(x)[:24] for x in row] for row in np.asarray(st["P"], dtype=object)]})
    if ex.truncated:
        res["obligations"].append({"name": f"gemini/{label}/{family}/exploration", "verdict": "unknown", "how": "path budget exhausted"})
    return res


def job_prox(which):
    loader.install()
    res = _new()
    box = {}

    def setup():
        pg = loader.load("sparse._prox_grad")
        alpha = core.var("alpha", "+")
        M = core.var("M", "0+")
        box.update(pg=pg)
        return pg, alpha, M

    def body(arg):
        pg, alpha, M = arg
        z = lambda r, c: np.array([[K(0)] * c for _ in range(r)], dtype=object)
        if which == "lasso-zero-rows":
            W = harness.free_matrix(2, 2, "w")
            W[0, :] = K(0)
            return [pg.linear_prox_grad(W.copy(), alpha)]
        if which == "lasso-all-zero":
            return [pg.linear_prox_grad(z(2, 2), alpha), pg.group_linear_prox_grad([[0, 1]], z(2, 1), alpha)]
        if which == "lasso-alpha0":
            W = harness.free_matrix(2, 1, "w")
            return [pg.linear_prox_grad(W.copy(), K(0))]
        if which == "hier-zero-hidden":
            V = harness.free_matrix(1, 2, "v")
            harness.assume(core.sym_sqrt(to_rat(V[0, 0]) ** 2 + to_rat(V[0, 1]) ** 2) > 0)
            return list(pg.mlp_prox_grad(V.copy(), z(1, 2), alpha, M))
        if which == "hier-zero-skip-zero-hidden":
            return list(pg.mlp_prox_grad(z(2, 1), z(2, 2), alpha, M)) + list(pg.group_mlp_prox_grad([[0, 1]], z(2, 1), z(2, 1), alpha, M))
        if which == "hier-ties":
            V = harness.free_matrix(1, 1, "v")
            harness.assume(V[0, 0] > 0)
            u = core.var("u")
            U = np.array([[u, u, -u]], dtype=object)
            return list(pg.mlp_prox_grad(V.copy(), U, alpha, M))
        raise ValueError(which)

    ex = Explorer(max_paths=3000)
    seen = False
    for out, pc, trace in ex.run(body, setup):
        res["paths"] += 1
        tag = f"prox/{which}/path{res['paths']}"
        bad = None
        if isinstance(out, PathError):
            bad = repr(out)[:200]
        else:
            flat = [x for arr in out for x in np.asarray(arr, dtype=object).reshape(-1)]
            und = [x for x in flat if isinstance(x, core.UndefinedValue) or (isinstance(x, float) and not np.isfinite(x))]
            if und:
                bad = f"undefined value {und[0]!r}"
            else:
                dres = harness.check_defined([to_rat(x) for x in flat], list(ex.pc), timeout_s=8.0, name=tag + "/defined")
                if dres["verdict"] == "unsat":
                    res["obligations"].append({k: v for k, v in dres.items() if k != "model"})
                    if which == "hier-zero-skip-zero-hidden":
                        allzero = all(to_rat(x).c == 0 for x in flat)
                        res["obligations"].append({"name": tag + "/zero skip and hidden rows stay exactly zero", "verdict": "unsat" if allzero else "sat", "how": "normal-form"})
                else:
                    bad = f"guard not provable: {dres.get('what')}"
        if bad:
            v, model = harness.reachable(list(ex.pc), timeout_s=8.0)
            res["queries"] += 1
            if v == "unsat":
                continue
            o = {"name": tag + "/defined", "verdict": "sat", "how": bad}
            res["obligations"].append(o)
            rep = {"kind": "prox", "which": which, "model": {k: str(x) for k, x in (model or {}).items() if "!" not in k}}
            if v == "sat" and replay(rep):
                if not seen:
                    seen = True
                    res["violations"].append({"signature": f"{PROP}:prox:{which}", "what": f"proximal operator output not finite on the degenerate family '{which}' ({bad[:80]})", "replay": rep})
            else:
                o["verdict"] = "inconclusive"
    res["samples"].append({"family": which, "paths": res["paths"]})
    return res


def job_douglas(which):
    loader.install()
    res = _new()
    box = {}

    def setup():
        mod = loader.load("tree.douglas")
        mdl = mod.Douglas(n_clusters=2, n_cuts=2)
        mdl.temperature = core.var("T", "+")
        c = core.var("c")
        if which == "coinciding-cuts":
            mdl.cut_points_list_ = [(0, np.array([c, c], dtype=object))]
            X = harness.free_matrix(2, 1, "x")
            mdl.leaf_scores_ = harness.free_matrix(3, 2, "ls")
        else:   # duplicated data columns and samples
            mdl.cut_points_list_ = [(0, np.array([c, core.var("c2")], dtype=object)), (1, np.array([core.var("c3"), core.var("c4")], dtype=object))]
            x = core.var("x")
            X = np.array([[x, x], [x, x]], dtype=object)
            mdl.leaf_scores_ = harness.free_matrix(9, 2, "ls")
        box.update(mdl=mdl)
        return mdl, X

    def body(arg):
        mdl, X = arg
        P = mdl._infer(X)
        G = harness.free_matrix(P.shape[0], P.shape[1], "g")
        grads = mdl._compute_grads(X, P, G)
        return P, grads

    ex = Explorer(max_paths=2000)
    for out, pc, trace in ex.run(body, setup):
        res["paths"] += 1
        tag = f"douglas/{which}/path{res['paths']}"
        if isinstance(out, PathError):
            res["obligations"].append({"name": tag + "/defined", "verdict": "inconclusive", "how": repr(out)[:200]})
            continue
        P, grads = out
        flat = list(np.asarray(P, dtype=object).reshape(-1)) + [x for g in grads for x in np.asarray(g, dtype=object).reshape(-1)]
        und = [x for x in flat if isinstance(x, core.UndefinedValue)]
        dres = {"name": tag + "/defined", "verdict": "sat", "how": repr(und[0])} if und else harness.check_defined([to_rat(x) for x in flat], pc, timeout_s=8.0, name=tag + "/defined")
        res["obligations"].append({k: v for k, v in dres.items() if k != "model"})
        if dres["verdict"] == "sat":
            rep = {"kind": "douglas", "which": which}
            if replay(rep):
                res["violations"].append({"signature": f"{PROP}:douglas:{which}", "what": f"Douglas predictions / directions not finite with {which}", "replay": rep})
            else:
                res["obligations"][-1]["verdict"] = "inconclusive"
    return res


def job_fit(family, shape, gemini, batch_size, degenerate):
    """one symbolic epoch of the REAL fit (real GEMINI, real back-propagation) on degenerate data: every direction handed to the
    optimiser must be defined.  degenerate in {'dup-samples', 'const-column', 'K1', 'K=n', 'batch1'}"""
    from . import common_models as cm
    loader.install()
    res = _new()
    box = {}

    def setup():
        core.CTX.merge_sign = True
        env = cm.FitEnv(family, shape, gemini=gemini, batch_size=batch_size, max_iter=1, stop_after_training=True, assume_unclipped=True)
        n = env.n
        if degenerate == "dup-samples":
            env.X[1, :] = env.X[0, :]

            def post(A):
                A = np.array(A, dtype=object, copy=True)
                A[1, :] = A[0, :]
                A[:, 1] = A[:, 0]
                A[1, 1] = A[0, 0]
                A[0, 1] = A[1, 0] = A[0, 0]
                return A
            env.affinity_post = post
        if degenerate == "const-column" and cm.BASE[family] not in ("cat", "kernelrim"):
            c = core.var("const")
            for i in range(n):
                env.X[i, 0] = c
        box["env"] = env
        return env

    ex = Explorer(max_paths=800)
    tagbase = f"fit/{family}/{cm.shape_str(shape)}/{gemini}/bs{batch_size}/{degenerate}"
    seen = False
    for out, pc, trace in ex.run(lambda env: env.run_fit(), setup):
        res["paths"] += 1
        tag = f"{tagbase}/path{res['paths']}"
        bad = None
        if isinstance(out, PathError):
            bad = repr(out)[:200]
        else:
            env = out
            flat = [x for s_ in env.steps for g in s_["grads"] for x in np.asarray(g, dtype=object).reshape(-1)]
            und = [x for x in flat if isinstance(x, core.UndefinedValue) or (isinstance(x, float) and not np.isfinite(x))]
            if und:
                bad = f"undefined direction {und[0]!r}"
            else:
                dres = harness.check_defined([to_rat(x) for x in flat], pc, timeout_s=8.0, name=tag + "/every direction handed to the optimiser is defined")
                res["queries"] += dres.get("n_guards", 0)
                if dres["verdict"] == "unsat":
                    res["obligations"].append({k: v for k, v in dres.items() if k != "model"})
                elif dres["verdict"] == "sat":
                    bad = f"guard not provable: {dres.get('what')}"
                else:
                    res["obligations"].append({"name": tag + "/defined", "verdict": "unknown", "how": str(dres.get("what"))})
        if bad:
            v, model = harness.reachable(pc, timeout_s=8.0)
            res["queries"] += 1
            if v == "unsat":
                continue
            o = {"name": tag + "/every direction handed to the optimiser is defined", "verdict": "sat", "how": bad}
            res["obligations"].append(o)
            rep = {"kind": "fit", "family": family, "shape": list(shape), "gemini": gemini, "batch_size": batch_size, "degenerate": degenerate}
            if v == "sat" and replay(rep):
                if not seen:
                    seen = True
                    res["violations"].append({"signature": f"{PROP}:fit:{family}:{gemini}:{degenerate}", "what": f"{family}.fit ({gemini}) produces a non-finite direction / raises on degenerate data '{degenerate}' ({bad[:80]})", "replay": rep})
            else:
                o["verdict"] = "inconclusive"
        if len(res["samples"]) < 1 and not isinstance(out, PathError):
            res["samples"].append({"config": tagbase, "steps": len(out.steps)})
    if ex.truncated:
        res["obligations"].append({"name": tagbase + "/exploration", "verdict": "unknown", "how": "path budget exhausted"})
    return res


def replay(rep, verbose=False):
    if rep.get("kind") == "fit-scaled":
        return _fit_scaled_run(rep, verbose)
    if rep.get("kind") == "gemini-shape":
        gem, gk, ovo = cg.build(rep["label"], symbolic=False)
        shapes = {"K1": (3, 1), "n1": (1, 2)}.get(rep["family"], (2, 2))
        P = np.full(shapes, 1.0 / shapes[1])
        A = None if gk not in ("mmd", "w") else (np.ones((shapes[0], shapes[0])) - (np.eye(shapes[0]) if gk == "w" else 0))
        S, G = gem.evaluate(P.copy(), A, return_grad=True)
        if verbose:
            print(rep["label"], rep["family"], "predictions", P.shape, "gradient", np.shape(G))
        return tuple(np.shape(G)) != P.shape
    if rep.get("kind") == "affinity-duplicates":
        return bool(job_affinity_duplicates()["violations"])
    kind = rep["kind"]
    if kind == "fit":
        from . import common_models as cm
        family, shape = rep["family"], tuple(rep["shape"])
        cls, mod = cm.get_class(family, symbolic=False)
        dm = cm.dims(family, shape)
        rng = np.random.RandomState(0)
        n, d = dm["n"], max(dm["d"], 2)
        X = rng.normal(size=(n, d))
        if rep["degenerate"] == "dup-samples":
            X[1] = X[0]
        if rep["degenerate"] == "const-column":
            X[:, 0] = 1.0
        kw = dict(n_clusters=dm["K"], max_iter=3, random_state=0)
        if cm.BASE[family] != "cat":
            kw["batch_size"] = rep["batch_size"]
        if family not in ("RIM", "KernelRIM"):
            kw["gemini"] = rep["gemini"]
        with np.errstate(all="ignore"):
            try:
                m = cls(**kw).fit(X)
            except Exception as e:
                if verbose:
                    print("fit raised", type(e).__name__, e)
                return True
            ws = m._get_weights()
            P = m.predict_proba(X)
            ok = all(np.all(np.isfinite(w)) for w in ws) and np.all(np.isfinite(P)) and np.isfinite(m.score(X))
        if verbose:
            print("weights finite / proba finite / score finite:", ok)
        return not ok
    model = {k: Fraction(v) for k, v in rep.get("model", {}).items()}
    with np.errstate(all="ignore"):
        if kind == "gemini":
            label, family = rep["label"], rep["family"]
            gem, gk, ovo = cg.build(label, symbolic=False)
            f = lambda k, d=0.3: float(model.get(k, d))
            def affm(n):
                if gk not in ("mmd", "w"):
                    return [None]
                pre = "a" if gk == "mmd" else "m"
                A = np.array([[0.0 if (gk == "w" and i == j) else f(f"{pre}_{min(i, j)}_{max(i, j)}", 1.0 + i + j) for j in range(n)] for i in range(n)])
                return [A]
            if family == "dup-samples":
                P2 = np.array([[f("p_0_0"), 1 - f("p_0_0")], [f("p_1_0", 0.6), 1 - f("p_1_0", 0.6)]])
                P = np.array([P2[0], P2[0], P2[1]])
                As = affm(3)
                if As[0] is not None:
                    A = As[0]
                    A[1, :] = A[0, :]; A[:, 1] = A[:, 0]; A[1, 1] = A[0, 0]; A[0, 1] = A[1, 0] = A[0, 0]
            elif family == "dup-clusters":
                x = [f("x_0", 0.2), f("x_1", 0.3)]
                P = np.array([[x[i], x[i], 1 - 2 * x[i]] for i in range(2)])
                As = affm(2)
            elif family == "K1":
                P, As = np.ones((2, 1)), affm(2)
            elif family == "n1":
                P, As = np.array([[f("p_0_0"), 1 - f("p_0_0")]]), affm(1)
            elif family == "K=n-onehot":
                P, As = np.eye(3), affm(3)
            elif family == "uniform":
                P, As = np.full((2, 2), 0.5), affm(2)
            else:
                P = np.array([[f("p_0_0"), 1 - f("p_0_0")], [f("p_1_0", 0.6), 1 - f("p_1_0", 0.6)]])
                c = f("c", 0.7) if family == "const-affinity" else 0.0
                As = [None] if gk not in ("mmd", "w") else [np.array([[0.0 if (gk == "w" and i == j) else c for j in range(2)] for i in range(2)])]
            cand = list(As)
            if As[0] is not None and family in ("K1", "n1", "K=n-onehot", "uniform", "dup-clusters"):
                cand += [a for a in cg.affinity_candidates(gk, P.shape[0], As[0])[1:]]
            # the family at its own size, then the same rows repeated to a long input (the family is still degenerate in the same way;
            # float underflow / overflow of products and sums over the samples only shows there -- exact arithmetic cannot see it)
            trials = [(P, A) for A in cand]
            if family != "n1":
                r = -(-96 // P.shape[0])
                for A in cand[:2]:
                    trials.append((np.tile(P, (r, 1)), None if A is None else np.tile(A, (r, r))))
            for Pt, A in trials:
                try:
                    S, G = gem.evaluate(Pt.copy(), None if A is None else A.copy(), return_grad=True)
                    S0 = gem.evaluate(Pt.copy(), None if A is None else A.copy())
                except Exception as e:
                    if verbose:
                        print("raised", type(e).__name__, e)
                    return True
                ok = np.isfinite(S) and np.isfinite(S0) and np.all(np.isfinite(np.asarray(G, dtype=float)))
                if verbose:
                    print(f"{Pt.shape[0]} rows;", "P", Pt.tolist() if len(Pt) <= 4 else "(rows of the family repeated)", "score", S, S0, "gradient finite:", bool(np.all(np.isfinite(np.asarray(G, dtype=float)))))
                if not ok:
                    return True
            return False
        if kind == "prox":
            pg = loader.real("sparse._prox_grad")
            which = rep["which"]
            a, M = float(model.get("alpha", 0.5)) or 0.5, float(model.get("M", 1.0))
            outs = []
            for Mv in {M, 0.0, 2.0}:
                if which == "lasso-zero-rows":
                    W = np.array([[0.0, 0.0], [float(model.get("w_1_0", 1.0)), float(model.get("w_1_1", -2.0))]])
                    outs.append(pg.linear_prox_grad(W, a))
                elif which == "lasso-all-zero":
                    outs += [pg.linear_prox_grad(np.zeros((2, 2)), a), pg.group_linear_prox_grad([[0, 1]], np.zeros((2, 1)), a)]
                elif which == "lasso-alpha0":
                    outs.append(pg.linear_prox_grad(np.array([[1.5], [0.0]]), 0.0))
                elif which == "hier-zero-hidden":
                    outs += list(pg.mlp_prox_grad(np.array([[1.0, -2.0]]), np.zeros((1, 2)), a, Mv))
                elif which == "hier-zero-skip-zero-hidden":
                    outs += list(pg.mlp_prox_grad(np.zeros((2, 1)), np.zeros((2, 2)), a, Mv)) + list(pg.group_mlp_prox_grad([[0, 1]], np.zeros((2, 1)), np.zeros((2, 1)), a, Mv))
                elif which == "hier-ties":
                    outs += list(pg.mlp_prox_grad(np.array([[1.3]]), np.array([[0.7, 0.7, -0.7]]), a, Mv))
            bad = any(not np.all(np.isfinite(np.asarray(o, dtype=float))) for o in outs)
            if which == "hier-zero-skip-zero-hidden":
                bad = bad or any(np.any(np.asarray(o) != 0) for o in outs)
            if verbose:
                print(which, [np.asarray(o).tolist() for o in outs])
            return bad
        if kind == "douglas":
            mod = loader.real("tree.douglas")
            mdl = mod.Douglas(n_clusters=2, n_cuts=2, temperature=0.5)
            rng = np.random.RandomState(0)
            if rep["which"] == "coinciding-cuts":
                mdl.cut_points_list_ = [(0, np.array([0.3, 0.3]))]
                mdl.leaf_scores_ = rng.normal(size=(3, 2))
                X = rng.normal(size=(2, 1))
            else:
                mdl.cut_points_list_ = [(0, np.array([0.3, -0.2])), (1, np.array([0.1, 0.9]))]
                mdl.leaf_scores_ = rng.normal(size=(9, 2))
                X = np.full((2, 2), 0.4)
            P = mdl._infer(X)
            g = mdl._compute_grads(X, P, rng.normal(size=P.shape))
            return not (np.all(np.isfinite(P)) and all(np.all(np.isfinite(x)) for x in g))
    raise ValueError(kind)


SCALED_ESTIMATORS = [("linear", "LinearMMD"), ("linear", "LinearWasserstein"), ("linear", "LinearModel"), ("linear", "RIM"), ("linear", "KernelRIM"),
                     ("mlp", "MLPMMD"), ("mlp", "MLPWasserstein"), ("mlp", "MLPModel"), ("sparse", "SparseLinearMMD"), ("sparse", "SparseLinearMI"),
                     ("sparse", "SparseMLPMMD"), ("nonparametric", "CategoricalMMD"), ("nonparametric", "CategoricalWasserstein"), ("tree", "Douglas"), ("tree", "Kauri")]


def job_affinity_duplicates():
    """CONCRETE witness: the affinities the objectives compute themselves (named kernels / metrics, defaults included) are finite on data
    with exactly duplicated rows and columns -- no NaN from the square root of a negative round-off -- and null between duplicates for distances"""
    res = _new()
    gm = loader.real("gemini")
    rs = np.random.RandomState(4)
    bad_names = []
    for trial in range(30):
        base = rs.normal(size=(6, 1 + trial % 4)) * (1.0 + 10.0 * (trial % 3))
        X = np.vstack([base, base[:3], base[:1]])
        for nm, g in [("Wasserstein/euclidean", gm.WassersteinGEMINI()), ("Wasserstein/cosine", gm.WassersteinGEMINI(metric="cosine")), ("Wasserstein/manhattan", gm.WassersteinGEMINI(metric="manhattan")),
                      ("MMD/linear", gm.MMDGEMINI()), ("MMD/rbf", gm.MMDGEMINI(kernel="rbf"))]:
            with np.errstate(all="ignore"):
                A = np.asarray(g.compute_affinity(X), dtype=float)
            ok = np.isfinite(A).all() and (not nm.startswith("Wasserstein") or (abs(A[0, 6]) <= 1e-6 * (1 + np.abs(A).max()) and abs(A[0, 9]) <= 1e-6 * (1 + np.abs(A).max())))
            if not ok and nm not in bad_names:
                bad_names.append(nm)
    for nm in ["Wasserstein/euclidean", "Wasserstein/cosine", "Wasserstein/manhattan", "MMD/linear", "MMD/rbf"]:
        res["paths"] += 1
        res["obligations"].append({"name": f"affinity-duplicates/{nm}: finite on duplicated samples", "verdict": "sat" if nm in bad_names else "unsat", "how": "concrete float64 run"})
    if bad_names:
        res["violations"].append({"signature": f"{PROP}:affinity-duplicates:{bad_names[0]}", "what": f"compute_affinity ({bad_names}) returns NaN / a non-null distance between exact duplicates", "replay": {"kind": "affinity-duplicates"}})
    return res


def job_fit_scaled(pkg, name):
    """CONCRETE float64 witness (saturation / under- and overflow are invisible in exact arithmetic): the public estimator with its default
    settings on two well separated blobs whose features are scaled by 1, 100 and 1000 -- fit completes, every learned parameter, probability
    and the score are finite, and the two blobs are not silently merged into one cluster because of a NaN"""
    res = _new()
    for scale in (1.0, 100.0, 1000.0):
        res["paths"] += 1
        rep_ = {"kind": "fit-scaled", "pkg": pkg, "name": name, "scale": scale}
        bad = replay(rep_)
        res["obligations"].append({"name": f"fit-scaled/{name}/x{scale:g}: fit, predict_proba and score finite", "verdict": "sat" if bad else "unsat", "how": "concrete float64 run"})
        if bad and not res["violations"]:
            res["violations"].append({"signature": f"{PROP}:fit-scaled:{name}", "what": f"{name} on features scaled by {scale:g}: fit raises or leaves NaN / infinite parameters, probabilities or score", "replay": rep_})
    return res


def _fit_scaled_run(rep, verbose):
    import warnings
    mod = loader.real(rep["pkg"])
    cls = getattr(mod, rep["name"])
    rs = np.random.RandomState(0)
    X = np.vstack([rs.normal(size=(20, 3)) + 3, rs.normal(size=(20, 3)) - 3]) * rep["scale"]
    kw = dict(max_clusters=2) if rep["name"] == "Kauri" else dict(n_clusters=2, random_state=0)
    try:
        with warnings.catch_warnings():
            warnings.simplefilter("ignore")
            with np.errstate(all="ignore"):
                m = cls(**kw).fit(X)
                P = m.predict_proba(X) if hasattr(m, "predict_proba") else None
                sc = m.score(X)
                ws = m._get_weights() if hasattr(m, "_get_weights") else []
    except Exception as e:
        if verbose:
            print(rep["name"], "x", rep["scale"], "raised", type(e).__name__, str(e)[:100].replace("\n", " "))
        return True
    fin = (P is None or np.isfinite(P).all()) and np.isfinite(sc) and all(np.isfinite(np.asarray(w, dtype=float)).all() for w in ws)
    if verbose:
        print(rep["name"], "x", rep["scale"], "finite:", bool(fin), "score", sc, "cluster sizes", np.bincount(np.asarray(m.labels_, dtype=int)).tolist())
    return not fin


def jobs(tier):
    q = tier == "quick"
    out = []
    for lab in cg.CLASSES:
        kind = cg.CLASSES[lab][2]
        for fam in FAMILIES:
            if fam in ("const-affinity", "zero-affinity") and kind not in ("mmd", "w"):
                continue
            if q and lab in ("H2-ovo", "MMD-ovo") and fam in ("dup-samples", "K=n-onehot"):
                continue
            out.append({"name": f"gemini/{lab}/{fam}", "target": "checks.c17:job_gemini", "kwargs": dict(label=lab, family=fam), "timeout": 240 if q else 1800})
    for w in ("lasso-zero-rows", "lasso-all-zero", "lasso-alpha0", "hier-zero-hidden", "hier-zero-skip-zero-hidden", "hier-ties"):
        out.append({"name": f"prox/{w}", "target": "checks.c17:job_prox", "kwargs": dict(which=w), "timeout": 240})
    for w in ("coinciding-cuts", "duplicated-columns"):
        out.append({"name": f"douglas/{w}", "target": "checks.c17:job_douglas", "kwargs": dict(which=w), "timeout": 240})
    fits = [("LinearModel", (2, 1, 1), "mmd_ova", None, "K1"), ("LinearModel", (2, 1, 1), "mi", None, "K1"), ("LinearModel", (2, 1, 2), "mmd_ova", None, "dup-samples"),
            ("LinearModel", (2, 1, 2), "mmd_ovo", None, "dup-samples"), ("LinearModel", (2, 2, 2), "mi", None, "const-column"), ("LinearModel", (2, 1, 2), "mmd_ova", 1, "batch1"),
            ("LinearModel", (2, 1, 2), "wasserstein_ova", 1, "batch1"), ("CategoricalModel", (2, 2), "mmd_ova", None, "K=n"), ("CategoricalModel", (2, 1), "wasserstein_ova", None, "K1")]
    if not q:
        fits += [("MLPModel", (2, 1, 1, 2), "mmd_ova", 1, "batch1"), ("LinearModel", (3, 1, 3), "mmd_ova", None, "K=n"), ("LinearModel", (2, 1, 2), "tv_ovo", None, "dup-samples"),
                 ("LinearModel", (2, 1, 2), "hellinger_ova", 1, "batch1"), ("RIM", (2, 2, 2), "mi", None, "const-column")]
    out.append({"name": "affinity-duplicates", "target": "checks.c17:job_affinity_duplicates", "kwargs": {}, "timeout": 200})
    for pkg, nm in SCALED_ESTIMATORS:
        out.append({"name": f"fit-scaled/{nm}", "target": "checks.c17:job_fit_scaled", "kwargs": dict(pkg=pkg, name=nm), "timeout": 280})
    for fam, sh, gem, bs, deg in fits:
        out.append({"name": f"fit/{fam}/{gem}/bs{bs}/{deg}", "target": "checks.c17:job_fit", "kwargs": dict(family=fam, shape=sh, gemini=gem, batch_size=bs, degenerate=deg), "timeout": 240 if q else 1800})
    return out


def run(tier, seed, only=None, nproc=None):
    t0 = time.time()
    js = [j for j in jobs(tier) if not only or only in j["name"]]
    pairs = runner.run_jobs(js, nproc=nproc, seed=seed)
    return runner.finish(
        PROP, tier, seed, pairs, t0,
        assumptions=["'finite' = defined in exact arithmetic, with IEEE semantics for x/0 (x != 0 gives +-inf, 0/0 is undefined)",
                     "NOT covered: features scaled by a thousand, soft-max saturation, float under/overflow (no SMT theory of floating-point exp); "
                     "whole fit / path runs on degenerate data (only the numeric kernels are executed)",
                     "Kauri leaves of identical points / tie patterns: covered by C08's enumeration (any ZeroDivisionError would be a path error there)"],
        bounds={"tier": tier, "families": FAMILIES, "jobs": len(js)})
