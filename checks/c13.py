"""C13 -- GEMINI scores obey their invariances and bounds.

On symbolic runs of the REAL evaluate():
 perm    : S(sigma P tau, sigma A sigma^T) == S(P, A) and G(...) == sigma G tau for EVERY permutation pair of the shape
           (open simplex; and the closed box with an exactly-empty column for the cluster permutations)
 indep   : all rows of P equal  =>  score == 0  (1/2 for the chi-square family), any affinity
 bounds  : score >= 0 (chi2: >= 1/2), TV and Hellinger <= 1  (KL through tangent instances log t <= t - 1)
 closed  : P anywhere in the closed simplex (zeros, one-hot rows, ties, coinciding clusters): score and every gradient
           entry are DEFINED on every feasible path (no unmasked x/0, log 0, sqrt of a negative)
 empty   : appending an all-zero column gives that column exactly zero gradient; score changes by <= 1e-9
 hardMI  : balanced hard K-partition: |MI - log K| <= 1e-9
"""
from __future__ import annotations

import itertools
import time
from fractions import Fraction

import numpy as np
import z3

from symx import core, harness, loader, runner
from symx.core import K, to_rat
from symx.explore import Explorer, PathError
from . import common_gemini as cg

PROP = "C13"


def _strip(o):
    return {k: v for k, v in o.items() if k != "model"}


def _scalar(x):
    if isinstance(x, np.ndarray):
        x = x.reshape(-1)[0]
    return to_rat(x) if not harness.nonfinite(x) else x


def _new():
    return {"paths": 0, "queries": 0, "obligations": [], "violations": [], "validated": 0, "witnesses": 0, "samples": []}


def _mk(label):
    stub = cg.EmdStub()
    cg.install_ot_stub(stub)
    gem, kind, ovo = cg.build(label)
    return stub, gem, kind, ovo


def _model_pam(model):
    return {k: str(v) for k, v in (model or {}).items() if k[0] in "pam" and "!" not in k}


# ----------------------------------------------------------------------------------------------------------------------


def _long_sigmas(N):
    """sample permutations of a long input: reversal, rotations that move rows across any block boundary, an interleaving"""
    idn = list(range(N))
    out = [idn[::-1], idn[1:] + idn[:1], idn[N // 3:] + idn[:N // 3], idn[::2] + idn[1::2]]
    return [tuple(s) for s in out]


def job_perm(label, n, Kc, empty_col=False, timeout_q=20.0, max_paths=1500, long_n=None):
    """all sample permutations x all cluster permutations in ONE symbolic run per path.
    long_n: the input has long_n rows drawn by a fixed pattern from n distinct symbolic rows (see checks.c01.long_pattern)
    and four structured permutations of the long_n positions are compared instead of all n! ones."""
    loader.install()
    res = _new()
    st = {}
    sig_list = list(itertools.permutations(range(n)))
    tau_list = list(itertools.permutations(range(Kc)))
    pattern = None
    n_small = n
    if long_n:
        from .c01 import long_pattern
        pattern = long_pattern(long_n, n)
        sig_list = [tuple(range(long_n))] + _long_sigmas(long_n)
        n = long_n

    def setup():
        stub, gem, kind, ovo = _mk(label)
        core.CTX.merge_sign = True
        if empty_col:
            # closed box, last column exactly empty: K-1 live columns + a zero column
            P0, base, A = cg.sym_inputs(kind, n, Kc - 1, open_=True, eps=gem.epsilon) if Kc > 2 else (None, None, None)
            if Kc == 2:
                P0 = np.empty((n, 1), dtype=object)
                for i in range(n):
                    P0[i, 0] = K(1)
                A = cg.sym_inputs(kind, n, 2, eps=gem.epsilon)[2]
            P = np.empty((n, Kc), dtype=object)
            P[:, :Kc - 1] = P0
            for i in range(n):
                P[i, Kc - 1] = K(0)
        elif pattern is not None:
            P, base, A = cg.sym_inputs(kind, n_small, Kc, eps=gem.epsilon)
            idx = np.asarray(pattern)
            P, A = P[idx], (None if A is None else A[np.ix_(idx, idx)])
        else:
            P, base, A = cg.sym_inputs(kind, n, Kc, eps=gem.epsilon)
        st.update(gem=gem, kind=kind, ovo=ovo)
        return P, A

    def body(arg):
        P, A = arg
        gem = st["gem"]
        S, G = gem.evaluate(P.copy(), None if A is None else A.copy(), return_grad=True)
        outs = []
        for sg in sig_list:
            for tau in tau_list:
                if sg == tuple(range(n)) and tau == tuple(range(Kc)):
                    continue
                if empty_col and sg != tuple(range(n)):
                    continue
                P2 = P[list(sg)][:, list(tau)]
                A2 = None if A is None else A[list(sg)][:, list(sg)]
                S2, G2 = gem.evaluate(P2.copy(), None if A2 is None else A2.copy(), return_grad=True)
                outs.append((sg, tau, S2, G2))
        return S, G, outs

    ex = Explorer(max_paths=max_paths)
    tagbase = f"perm{'-emptycol' if empty_col else ''}/{label}/n{n}K{Kc}" + (f"/rows{n_small}" if pattern else "")
    for out, pc, trace in ex.run(body, setup):
        res["paths"] += 1
        tag = f"{tagbase}/path{res['paths']}"
        if isinstance(out, PathError):
            res["obligations"].append({"name": tag + "/path-error", "verdict": "inconclusive", "how": repr(out)[:300]})
            _concrete_fallback(res, label, n_small, Kc, pc, "perm", **({"pattern": pattern, "sigma": list(sig_list[1])} if pattern else {}))
            continue
        S, G, outs = out
        v, wmodel = harness.reachable(pc, timeout_s=8.0)
        res["queries"] += 1
        if v == "unsat":
            continue
        if v == "sat":
            res["witnesses"] += 1
        S = _scalar(S)
        G = np.asarray(G, dtype=object)
        for sg, tau, S2, G2 in outs:
            S2 = _scalar(S2)
            G2 = np.asarray(G2, dtype=object)
            ptag = f"{tag}/sigma{list(sg) if not pattern else 'L%d' % sig_list.index(sg)}tau{list(tau)}"
            obs = [("score invariant", S2 - S)] if not (harness.nonfinite(S) or harness.nonfinite(S2)) else []
            Gp = G[list(sg)][:, list(tau)]
            for i in range(n):
                for k in range(Kc):
                    if harness.nonfinite(G2[i, k]) or harness.nonfinite(Gp[i, k]):
                        continue     # definedness is the closed-simplex job's subject
                    obs.append((f"grad equivariant[{i},{k}]", to_rat(G2[i, k]) - to_rat(Gp[i, k])))
            for nm, dterm in obs:
                if isinstance(dterm, core.UndefinedValue):
                    continue
                o = harness.prove_zero(dterm, pc, timeout_s=timeout_q, name=f"{ptag}/{nm}")
                if o.get("how", "").startswith("solver"):
                    res["queries"] += 1
                res["obligations"].append(_strip(o))
                if o["verdict"] == "sat":
                    rep = None
                    for cand in cg.candidate_models(o.get("model"), n_small, (Kc - 1 if empty_col else Kc), pc) if o.get("model") else []:
                        r2 = {"kind": "perm", "label": label, "n": n_small, "K": Kc, "sigma": list(sg), "tau": list(tau), "empty_col": empty_col, "model": cand}
                        if pattern:
                            r2["pattern"] = pattern
                        if replay(r2):
                            rep = r2
                            break
                    if rep is not None:
                        res["violations"].append({"signature": f"{PROP}:{label}:perm", "what": f"{label}: score/gradient not invariant under permutation sigma={list(sg) if not pattern else 'of %d rows' % n} tau={list(tau)}"
                                                  + (" with an empty cluster" if empty_col else ""), "replay": rep})
                        break
                    res["obligations"][-1]["verdict"] = "inconclusive"
        if len(res["samples"]) < 1:
            res["samples"].append({"obligation": tag, "permutation_pairs": len(outs), "pc_size": len(pc)})
    if ex.truncated or ex.depth_hits:
        res["obligations"].append({"name": tagbase + "/exploration", "verdict": "unknown", "how": "path budget exhausted"})
    return res


def job_indep(label, n, Kc, timeout_q=20.0):
    loader.install()
    res = _new()
    st = {}

    def setup():
        stub, gem, kind, ovo = _mk(label)
        core.CTX.merge_sign = True
        row, base, A = cg.sym_inputs(kind, 1, Kc, eps=gem.epsilon)
        P = np.empty((n, Kc), dtype=object)
        for i in range(n):
            P[i, :] = row[0, :]
        if kind in ("mmd", "w"):
            A = cg.sym_inputs(kind, n, Kc, eps=gem.epsilon)[2]
        st.update(gem=gem, kind=kind)
        return P, A

    ex = Explorer(max_paths=500)
    for out, pc, trace in ex.run(lambda a: st["gem"].evaluate(a[0].copy(), None if a[1] is None else a[1].copy()), setup):
        res["paths"] += 1
        tag = f"indep/{label}/n{n}K{Kc}/path{res['paths']}"
        if isinstance(out, PathError):
            res["obligations"].append({"name": tag + "/path-error", "verdict": "inconclusive", "how": repr(out)[:300]})
            continue
        v, wmodel = harness.reachable(pc, timeout_s=8.0)
        res["queries"] += 1
        if v == "unsat":
            continue
        res["witnesses"] += v == "sat"
        S = _scalar(out)
        target = K(Fraction(1, 2)) if st["kind"] == "chi2" else K(0)
        if st["kind"] == "w":
            # W(q,q) = 0 is a fact about the stubbed transport, asserted for identical arguments only
            o = {"name": tag + "/score==0", "verdict": "unsat" if _w_all_self(S) else "unknown", "how": "transport stub: every call has identical marginals"}
        else:
            o = harness.prove_zero(S - target, pc, timeout_s=timeout_q, name=tag + f"/score=={target.c}")
            res["queries"] += 1
        res["obligations"].append(_strip(o))
        if o["verdict"] == "sat":
            rep = {"kind": "indep", "label": label, "n": n, "K": Kc, "model": _model_pam(o.get("model"))}
            if o.get("model") and replay(rep):
                res["violations"].append({"signature": f"{PROP}:{label}:indep", "what": f"{label}: score of sample-independent predictions is not {target.c}", "replay": rep})
            else:
                res["obligations"][-1]["verdict"] = "inconclusive"
    return res


def _w_all_self(S):
    fs = core.reachable_factors([f for f, _ in S.f])
    for fid in fs:
        k = core.CTX.factors[fid]
        if k[0] == "uf" and k[1] == "emd":
            ka, kb, _ = k[2][0]
            if ka != kb:
                return False
    return True


def job_bounds(label, n, Kc, timeout_q=30.0):
    loader.install()
    res = _new()
    st = {}

    def setup():
        stub, gem, kind, ovo = _mk(label)
        core.CTX.merge_sign = False
        P, base, A = cg.sym_inputs(kind, n, Kc, eps=gem.epsilon)
        st.update(gem=gem, kind=kind)
        return P, A

    ex = Explorer(max_paths=800)
    for out, pc, trace in ex.run(lambda a: st["gem"].evaluate(a[0].copy(), None if a[1] is None else a[1].copy()), setup):
        res["paths"] += 1
        tag = f"bounds/{label}/n{n}K{Kc}/path{res['paths']}"
        if isinstance(out, PathError):
            res["obligations"].append({"name": tag + "/path-error", "verdict": "inconclusive", "how": repr(out)[:300]})
            continue
        v, wmodel = harness.reachable(pc, timeout_s=8.0)
        res["queries"] += 1
        if v == "unsat":
            continue
        res["witnesses"] += v == "sat"
        S = _scalar(out)
        kind = st["kind"]
        lo = K(Fraction(1, 2)) if kind == "chi2" else K(0)
        goals = [(f"score>={lo.c}", S >= lo)]
        if kind in ("tv", "h2"):
            goals.append(("score<=1", S <= 1))
        extra = _tangent_axioms(n) if kind == "kl" else []
        for nm, g in goals:
            o = harness.prove(g, pc, timeout_s=timeout_q, name=f"{tag}/{nm}", extra=extra, fids=harness.all_factors([S]))
            res["queries"] += 1
            res["obligations"].append(_strip(o))
            if o["verdict"] == "sat":
                rep = {"kind": "bounds", "label": label, "n": n, "K": Kc, "model": _model_pam(o.get("model"))}
                if o.get("model") and replay(rep):
                    res["violations"].append({"signature": f"{PROP}:{label}:bounds", "what": f"{label}: {nm} violated", "replay": rep})
                else:
                    res["obligations"][-1]["verdict"] = "inconclusive"
    return res


def _tangent_axioms(n):
    """c f / g - 1 >= log(c f / g) = log c + log f - log g   for every ordered pair of log atoms and c in {1, n, 1/n}
    (true of the real logarithm; f, g > 0)."""
    ax = []
    logs = list(core.CTX.log_atoms)
    consts = [Fraction(1), Fraction(n), Fraction(1, n)]
    for a in logs:
        for b in logs:
            if a == b:
                continue
            f, g = core.CTX.factors[a][1], core.CTX.factors[b][1]
            ta, tb, tf, tg = core.z3f(a), core.z3f(b), core.z3f(f), core.z3f(g)
            for c in consts:
                lc = core.z3rat(core.sym_log(K(c))) if c != 1 else 0
                ax.append((ta - tb + lc) * tg <= core._z3c(c) * tf - tg)
    for a in logs:
        f = core.CTX.factors[a][1]
        for c in consts:
            lc = core.z3rat(core.sym_log(K(c))) if c != 1 else 0
            ax.append(core.z3f(a) + lc <= core._z3c(c) * core.z3f(f) - 1)
    # the prime-log atoms created above need their enclosures: handled by atom_axioms through CTX (they are factors)
    return ax


def job_closed(label, n, Kc, timeout_q=10.0, max_paths=3000):
    """closed simplex, NON-strict: ties, zeros, one-hot rows and coinciding clusters are all reachable."""
    loader.install()
    res = _new()
    st = {}

    def setup():
        stub, gem, kind, ovo = _mk(label)
        core.CTX.merge_sign = True
        P, base, A = cg.sym_inputs(kind, n, Kc, open_=False, closed=True, eps=gem.epsilon)
        st.update(gem=gem, kind=kind)
        return P, A

    ex = Explorer(max_paths=max_paths)
    bad_seen = False
    for out, pc, trace in ex.run(lambda a: st["gem"].evaluate(a[0].copy(), None if a[1] is None else a[1].copy(), return_grad=True), setup):
        res["paths"] += 1
        tag = f"closed/{label}/n{n}K{Kc}/path{res['paths']}"
        if isinstance(out, PathError):
            # an exception on a legal input is itself a failure of "scores and gradients stay finite"
            res["obligations"].append({"name": tag + "/path-error", "verdict": "inconclusive", "how": repr(out)[:300]})
            if not bad_seen:
                bad_seen = _concrete_fallback(res, label, n, Kc, pc, "closed")
            continue
        S, G = out
        flat = [S if harness.nonfinite(S) else _scalar(S)] + list(np.asarray(G, dtype=object).reshape(-1))
        undefined = [x for x in flat if harness.nonfinite(x)]
        if undefined:
            v, model = harness.reachable(pc, timeout_s=8.0)
            res["queries"] += 1
            o = {"name": tag + "/defined", "verdict": "sat" if v == "sat" else ("unsat" if v == "unsat" else "unknown"), "how": "undefined value: " + getattr(undefined[0], "why", repr(undefined[0]))}
            if v == "sat":
                rep = {"kind": "closed", "label": label, "n": n, "K": Kc, "model": _model_pam(model)}
                if replay(rep):
                    if not bad_seen:
                        res["violations"].append({"signature": f"{PROP}:{label}:finite", "what": f"{label}: score/gradient not finite on the closed simplex ({getattr(undefined[0], 'why', repr(undefined[0]))})", "replay": rep})
                        bad_seen = True
                else:
                    o["verdict"] = "inconclusive"
            res["obligations"].append(o)
            continue
        flat = [to_rat(x) for x in flat]
        dres = harness.check_defined(flat, pc, timeout_s=timeout_q, name=tag + "/defined")
        res["queries"] += dres.get("n_guards", 0)
        res["obligations"].append(_strip(dres))
        if dres["verdict"] == "sat":
            rep = {"kind": "closed", "label": label, "n": n, "K": Kc, "model": _model_pam(dres.get("model"))}
            if dres.get("model") and replay(rep):
                if not bad_seen:
                    res["violations"].append({"signature": f"{PROP}:{label}:finite", "what": f"{label}: score/gradient not finite on the closed simplex ({dres.get('what')})", "replay": rep})
                    bad_seen = True
            else:
                res["obligations"][-1]["verdict"] = "inconclusive"
        if len(res["samples"]) < 1:
            res["samples"].append({"obligation": tag, "guards": dres.get("n_guards"), "pc_size": len(pc)})
    if ex.truncated or ex.depth_hits:
        res["obligations"].append({"name": f"closed/{label}/n{n}K{Kc}/exploration", "verdict": "unknown", "how": "path budget exhausted"})
    return res


def job_empty(label, n, Kc, position="last", timeout_q=20.0):
    """append / insert an all-zero column: zero gradient there, score unchanged up to 1e-9"""
    loader.install()
    res = _new()
    st = {}

    def setup():
        stub, gem, kind, ovo = _mk(label)
        core.CTX.merge_sign = True
        P, base, A = cg.sym_inputs(kind, n, Kc, eps=gem.epsilon)
        st.update(gem=gem, kind=kind)
        return P, A

    def body(arg):
        P, A = arg
        gem = st["gem"]
        S = gem.evaluate(P.copy(), None if A is None else A.copy())
        z = np.empty((n, 1), dtype=object)
        z.fill(K(0))
        col = Kc if position == "last" else 0
        P2 = np.concatenate([P, z], axis=1) if position == "last" else np.concatenate([z, P], axis=1)
        S2, G2 = gem.evaluate(P2.copy(), None if A is None else A.copy(), return_grad=True)
        return S, S2, G2, col

    ex = Explorer(max_paths=600)
    for out, pc, trace in ex.run(body, setup):
        res["paths"] += 1
        tag = f"empty-{position}/{label}/n{n}K{Kc}/path{res['paths']}"
        if isinstance(out, PathError):
            res["obligations"].append({"name": tag + "/path-error", "verdict": "inconclusive", "how": repr(out)[:300]})
            _concrete_fallback(res, label, n, Kc, pc, "empty", position=position)
            continue
        S, S2, G2, col = out
        v, wmodel = harness.reachable(pc, timeout_s=8.0)
        res["queries"] += 1
        if v == "unsat":
            continue
        res["witnesses"] += v == "sat"
        G2 = np.asarray(G2, dtype=object)
        zero = all((not isinstance(G2[i, col], core.UndefinedValue)) and to_rat(G2[i, col]).c == 0 for i in range(n))
        o = {"name": tag + "/empty column has zero gradient", "verdict": "unsat" if zero else "sat", "how": "normal-form"}
        res["obligations"].append(o)
        if not zero:
            rep = {"kind": "empty", "label": label, "n": n, "K": Kc, "position": position, "model": _model_pam(wmodel)}
            if wmodel and replay(rep):
                res["violations"].append({"signature": f"{PROP}:{label}:empty", "what": f"{label}: an empty cluster ({position}) receives a non-zero gradient or changes the score", "replay": rep})
            else:
                o["verdict"] = "inconclusive"
        S, S2 = _scalar(S), _scalar(S2)
        if st["kind"] == "w":
            continue   # the transport stub cannot relate W on K and K+1 clusters beyond congruence; covered by replays of perm-emptycol
        tol = K(Fraction(1, 10 ** 9)) * (1 + core.sym_abs(S))      # relative: scores of near-one-hot predictions can be huge (chi2)
        d = S2 - S
        o = harness.prove(core.SymBool(z3.And((d <= tol).t if isinstance(d <= tol, core.SymBool) else z3.BoolVal(bool(d <= tol)),
                                              (d >= -tol).t if isinstance(d >= -tol, core.SymBool) else z3.BoolVal(bool(d >= -tol)))),
                          pc, timeout_s=timeout_q, name=tag + "/|score(P+empty)-score(P)|<=1e-9*(1+|score|)", fids=harness.all_factors([d]))
        res["queries"] += 1
        res["obligations"].append(_strip(o))
        if o["verdict"] == "sat":
            rep = {"kind": "empty", "label": label, "n": n, "K": Kc, "position": position, "model": _model_pam(o.get("model"))}
            if o.get("model") and replay(rep):
                res["violations"].append({"signature": f"{PROP}:{label}:empty", "what": f"{label}: adding an empty cluster ({position}) changes the score", "replay": rep})
            else:
                res["obligations"][-1]["verdict"] = "inconclusive"
    return res


def job_float_long(label):
    """CONCRETE float64 witnesses on long inputs (not solver-decided; exact arithmetic cannot see under/overflow of sums and products
    over many samples): saturated and constant predictions of 96 / 1500 rows through the real evaluate -- finite, zero at independence,
    unchanged by an empty cluster.  Complements the symbolic closed / indep / empty jobs, whose shapes are small."""
    res = _new()
    for rep_ in _float_long_cases(label):
        res["paths"] += 1
        bad = replay(rep_)
        res["obligations"].append({"name": f"float-long/{label}/{rep_['case']}", "verdict": "sat" if bad else "unsat", "how": "concrete float64 run"})
        if bad and not res["violations"]:
            res["violations"].append({"signature": f"{PROP}:{label}:float-long", "what": f"{label}: {rep_['case']} -- score/gradient not finite, not zero at independence or changed by an empty cluster on a long input", "replay": rep_})
    res["samples"].append({"cases": res["paths"]})
    return res


def _float_long_cases(label):
    return [{"kind": "float-long", "label": label, "case": c} for c in ("onehot-K2-n96", "onehot-K3-n96", "onehot-K3-n96-empty-middle", "constant-K3-n1500", "soft-K2-n1500",
                                                                          # one-hot rows as they are often built (np.eye(K, dtype=int)[labels], labels[:, None] == arange(K)): the storage type must not matter
                                                                          "onehot-K3-n96-stored-int64", "onehot-K3-n96-stored-int32", "onehot-K3-n96-stored-bool")]


def _float_long_run(rep, verbose):
    label, case = rep["label"], rep["case"]
    gem, gk, ovo = cg.build(label, symbolic=False)
    rng = np.random.RandomState(0)
    Kc = 2 if "K2" in case else 3
    n = int(case.split("-n")[1].split("-")[0])
    if case.startswith("onehot"):
        P = np.tile(np.eye(Kc), (n // Kc, 1))
    elif case.startswith("constant"):
        P = np.tile(np.array([[0.2, 0.3, 0.5]]), (n, 1))
    else:
        z = rng.normal(size=(n, Kc))
        P = np.exp(z) / np.exp(z).sum(1, keepdims=True)
    n = len(P)
    A = None
    if gk in ("mmd", "w"):
        if n > 200 and gk == "w":
            return False      # POT on 1500 x 1500: minutes; the saturated 96-row cases cover the transport objectives
        x = rng.normal(size=(n, 2))
        D = np.sqrt(((x[:, None, :] - x[None, :, :]) ** 2).sum(-1))
        A = x @ x.T if gk == "mmd" else D
    with np.errstate(all="ignore"):
        S, G = gem.evaluate(P.copy(), A, return_grad=True)
        S0 = float(gem.evaluate(P.copy(), A))
        bad = not (np.isfinite(S) and np.isfinite(S0) and np.all(np.isfinite(np.asarray(G, dtype=float))))
        why = "non-finite" if bad else ""
        if not bad and case.startswith("constant"):
            tgt = 0.5 if gk == "chi2" else 0.0
            bad = abs(S0 - tgt) > 1e-7
            why = f"score {S0} at independence"
        if not bad and "stored" in case:
            Pt = P.astype(case.split("stored-")[1])
            St, Gt = gem.evaluate(Pt.copy(), A, return_grad=True)
            St0 = gem.evaluate(Pt.copy(), A)
            Gt = np.asarray(Gt, dtype=float)
            bad = not (np.isfinite(St) and np.all(np.isfinite(Gt)) and abs(float(St) - S0) <= 1e-9 * (1 + abs(S0)) and abs(float(St0) - S0) <= 1e-9 * (1 + abs(S0))
                       and Gt.shape == np.asarray(G).shape and np.allclose(Gt, np.asarray(G, dtype=float), rtol=1e-9, atol=1e-12))
            why = f"score {S0} with float64 storage, {St} / {St0} with {Pt.dtype} storage"
        if not bad and "empty" in case:
            P2 = np.insert(P, 1, 0.0, axis=1)
            S2, G2 = gem.evaluate(P2.copy(), A, return_grad=True)
            bad = not (abs(float(S2) - S0) <= 1e-8 * (1 + abs(S0))) or not np.all(np.asarray(G2, dtype=float)[:, 1] == 0)
            why = f"score {S0} -> {S2} with an empty cluster in the middle"
    if verbose:
        print(label, case, "score", S, S0, why or "ok")
    return bad


def job_hard_mi(Kc, reps=1, timeout_q=30.0):
    """balanced hard K-partition: |MI - log K| <= 1e-9 (concrete one-hot P, log-of-constant enclosures in the solver)"""
    loader.install()
    res = _new()
    st = {}

    def setup():
        stub, gem, kind, ovo = _mk("MI")
        st["gem"] = gem
        n = Kc * reps
        P = np.empty((n, Kc), dtype=object)
        P.fill(K(0))
        for i in range(n):
            P[i, i % Kc] = K(1)
        return P, None

    ex = Explorer(max_paths=10)
    for out, pc, trace in ex.run(lambda a: st["gem"].evaluate(a[0].copy(), None), setup):
        res["paths"] += 1
        tag = f"hardMI/K{Kc}x{reps}"
        if isinstance(out, PathError):
            res["obligations"].append({"name": tag + "/path-error", "verdict": "inconclusive", "how": repr(out)[:300]})
            continue
        S = _scalar(out)
        logK = core.sym_log(K(Kc))
        d = S - logK
        tol = K(Fraction(1, 10 ** 9))
        b1, b2 = d <= tol, d >= -tol
        t = z3.And(b1.t if isinstance(b1, core.SymBool) else z3.BoolVal(bool(b1)), b2.t if isinstance(b2, core.SymBool) else z3.BoolVal(bool(b2)))
        o = harness.prove(core.SymBool(t), pc, timeout_s=timeout_q, name=tag + "/|MI-logK|<=1e-9", fids=harness.all_factors([d]))
        res["queries"] += 1
        res["obligations"].append(_strip(o))
        if o["verdict"] == "sat":
            rep = {"kind": "hardmi", "K": Kc, "reps": reps, "model": {}}
            if replay(rep):
                res["violations"].append({"signature": f"{PROP}:MI:hard-partition", "what": f"MI of a balanced hard {Kc}-partition is not log K", "replay": rep})
            else:
                res["obligations"][-1]["verdict"] = "inconclusive"
        res["samples"].append({"obligation": tag, "term": repr(d)[:200]})
    return res


# ----------------------------------------------------------------------------------------------------------------------


def _concrete_fallback(res, label, n, Kc, pc, kind, **kw):
    v, model = harness.reachable(pc, timeout_s=8.0)
    if v != "sat":
        return False
    rep = dict(kind=kind, label=label, n=n, K=Kc, model=_model_pam(model), **kw)
    if kind == "perm":
        rep.update(tau=list(range(Kc))[::-1], empty_col=False)
        rep.setdefault("sigma", list(range(n))[::-1])
    try:
        bad = replay(rep)
    except Exception as e:
        bad = True
        rep["exception"] = f"{type(e).__name__}: {e}"
    if bad:
        what = {"closed": "finite", "perm": "perm", "empty": "empty"}.get(kind, kind)
        res["violations"].append({"signature": f"{PROP}:{label}:{what}", "what": f"{label}: {kind} property fails (concrete fallback after an engine path error)", "replay": rep})
    return bad


def _closed_P(model, n, Kc):
    P = np.zeros((n, Kc))
    for i in range(n):
        s = 0.0
        for k in range(Kc - 1):
            vv = float(Fraction(model.get(f"p_{i}_{k}", Fraction(1, Kc))))
            P[i, k] = vv
            s += vv
        P[i, Kc - 1] = max(0.0, 1.0 - s)
    return P


def replay(rep, verbose=False):
    kind = rep["kind"]
    model = {k: Fraction(v) for k, v in rep.get("model", {}).items()}
    if kind == "float-long":
        return _float_long_run(rep, verbose)
    if kind == "hardmi":
        gem, _, _ = cg.build("MI", symbolic=False)
        Kc, reps = rep["K"], rep["reps"]
        P = np.zeros((Kc * reps, Kc))
        for i in range(Kc * reps):
            P[i, i % Kc] = 1.0
        val = float(gem.evaluate(P, None))
        if verbose:
            print("MI =", val, "log K =", np.log(Kc))
        return abs(val - np.log(Kc)) > 1e-9
    label, n, Kc = rep["label"], rep["n"], rep["K"]
    gem, gk, ovo = cg.build(label, symbolic=False)
    P0, A0 = cg.concrete_inputs(model, n, Kc, gk)
    with np.errstate(all="ignore"):
        cands = []
        for A in cg.affinity_candidates(gk, n, A0):
            cands.append((A, 1))
        if kind in ("closed", "indep", "bounds", "empty") and not rep.get("pattern"):
            # the same rows repeated to a long input: sums / products over the samples that under- or overflow in floats only show there
            cands += [(A, -(-96 // n)) for A, _ in cands[:2]]
        for A, tile in cands:
            if rep.get("pattern"):
                idx = np.asarray(rep["pattern"])
                P0l, A = P0[idx], (None if A is None else A[np.ix_(idx, idx)])
            elif tile > 1:
                P0l, A = np.tile(P0, (tile, 1)), (None if A is None else np.tile(A, (tile, tile)))
            else:
                P0l = P0
            if kind == "perm":
                P = P0l
                if rep.get("empty_col"):
                    P = np.concatenate([cg.concrete_inputs(model, n, max(Kc - 1, 2), gk)[0][:, :Kc - 1] if Kc > 2 else np.ones((n, 1)), np.zeros((n, 1))], axis=1)
                sg, tau = rep["sigma"], rep["tau"]
                S, G = gem.evaluate(P.copy(), A, return_grad=True)
                P2 = P[sg][:, tau]
                A2 = None if A is None else A[sg][:, sg]
                S2, G2 = gem.evaluate(P2.copy(), A2, return_grad=True)
                bad = (not np.isclose(S, S2, rtol=1e-7, atol=1e-9)) or (not np.allclose(np.asarray(G)[sg][:, tau], G2, rtol=1e-6, atol=1e-8))
                if verbose:
                    print("S", S, "S(permuted)", S2, "max grad diff", np.max(np.abs(np.asarray(G)[sg][:, tau] - np.asarray(G2))))
            elif kind == "indep":
                P = np.repeat(P0[:1], len(P0l), axis=0)
                S = float(gem.evaluate(P, A))
                tgt = 0.5 if gk == "chi2" else 0.0
                bad = abs(S - tgt) > 1e-7
                if verbose:
                    print("P rows all", P[0].tolist(), "score", S, "expected", tgt)
            elif kind == "bounds":
                S = float(gem.evaluate(P0l, A))
                lo = 0.5 if gk == "chi2" else 0.0
                bad = S < lo - 1e-9 or (gk in ("tv", "h2") and S > 1 + 1e-9)
                if verbose:
                    print("score", S)
            elif kind == "closed":
                P = np.tile(_closed_P(model, n, Kc), (max(tile, 1), 1))
                S, G = gem.evaluate(P.copy(), A, return_grad=True)
                bad = (not np.isfinite(S)) or (not np.isfinite(float(gem.evaluate(P.copy(), A)))) or (not np.all(np.isfinite(np.asarray(G, dtype=float))))
                if verbose:
                    print("P", P.tolist(), "score", S, "grad", np.asarray(G).tolist())
            elif kind == "empty":
                z = np.zeros((len(P0l), 1))
                P2 = np.concatenate([P0l, z], axis=1) if rep.get("position", "last") == "last" else np.concatenate([z, P0l], axis=1)
                col = Kc if rep.get("position", "last") == "last" else 0
                S = float(gem.evaluate(P0l.copy(), A))
                S2, G2 = gem.evaluate(P2.copy(), A, return_grad=True)
                G2 = np.asarray(G2, dtype=float)
                bad = (not np.all(G2[:, col] == 0)) or not (abs(float(S2) - S) <= 2e-9 * (1.0 + abs(S)))
                if verbose:
                    print("score", S, "with empty cluster", S2, "gradient of the empty column", G2[:, col].tolist())
            else:
                raise ValueError(kind)
            if bad:
                return True
    return False


SLOW_CLOSED = {"H2-ova", "H2-ovo"}


def jobs(tier):
    q = tier == "quick"
    out = []
    labs = list(cg.CLASSES)
    shapes = [(2, 2), (3, 2), (2, 3)]
    for lab in labs:
        for (n, Kc) in (shapes if not q else [(2, 2), (2, 3)] if lab in ("TV-ovo", "MMD-ovo", "H2-ovo") else shapes):
            out.append({"name": f"perm/{lab}/n{n}K{Kc}", "target": "checks.c13:job_perm", "kwargs": dict(label=lab, n=n, Kc=Kc, timeout_q=20 if q else 120),
                        "timeout": 240 if q else 2400})
        if cg.CLASSES[lab][2:][0] != "w":
            for N in ([67] if q else [67, 300]):
                if cg.CLASSES[lab][2:][0] == "mmd" and (N > 150 or q):
                    continue   # N^2 kernel entries per evaluation, 9 evaluations: thorough tier only (C01 runs the long MMD score job in quick)
                out.append({"name": f"perm-long/{lab}/N{N}/rows2K2", "target": "checks.c13:job_perm", "kwargs": dict(label=lab, n=2, Kc=2, long_n=N, timeout_q=20 if q else 120),
                            "timeout": 300 if q else 2400})
        out.append({"name": f"perm-emptycol/{lab}/n2K3", "target": "checks.c13:job_perm", "kwargs": dict(label=lab, n=2, Kc=3, empty_col=True), "timeout": 240 if q else 2400})
        out.append({"name": f"indep/{lab}/n2K2", "target": "checks.c13:job_indep", "kwargs": dict(label=lab, n=2, Kc=2), "timeout": 120})
        out.append({"name": f"indep/{lab}/n3K3", "target": "checks.c13:job_indep", "kwargs": dict(label=lab, n=3, Kc=3), "timeout": 240})
        out.append({"name": f"bounds/{lab}/n2K2", "target": "checks.c13:job_bounds", "kwargs": dict(label=lab, n=2, Kc=2, timeout_q=15 if q else 300), "timeout": 240 if q else 2400})
        if not q:
            out.append({"name": f"bounds/{lab}/n3K2", "target": "checks.c13:job_bounds", "kwargs": dict(label=lab, n=3, Kc=2, timeout_q=300), "timeout": 2400})
        if not (q and lab in SLOW_CLOSED):
            out.append({"name": f"closed/{lab}/n2K2", "target": "checks.c13:job_closed", "kwargs": dict(label=lab, n=2, Kc=2), "timeout": 240 if q else 2400})
        if not q:
            out.append({"name": f"closed/{lab}/n2K3", "target": "checks.c13:job_closed", "kwargs": dict(label=lab, n=2, Kc=3, max_paths=6000), "timeout": 1200 if lab.startswith("MMD") else 3000})   # MMD: the soft deadline ends the exploration (reported as unknown)
        out.append({"name": f"empty-last/{lab}/n2K2", "target": "checks.c13:job_empty", "kwargs": dict(label=lab, n=2, Kc=2), "timeout": 240 if q else 1200})
        out.append({"name": f"empty-first/{lab}/n2K2", "target": "checks.c13:job_empty", "kwargs": dict(label=lab, n=2, Kc=2, position="first"), "timeout": 240 if q else 1200})
    for lab in labs:
        out.append({"name": f"float-long/{lab}", "target": "checks.c13:job_float_long", "kwargs": dict(label=lab), "timeout": 280})
    for Kc, reps in [(2, 1), (3, 1), (2, 2)] + ([] if q else [(4, 1), (3, 2)]):
        out.append({"name": f"hardMI/K{Kc}x{reps}", "target": "checks.c13:job_hard_mi", "kwargs": dict(Kc=Kc, reps=reps), "timeout": 120})
    return out


def run(tier, seed, only=None, nproc=None):
    t0 = time.time()
    js = [j for j in jobs(tier) if not only or only in j["name"]]
    pairs = runner.run_jobs(js, nproc=nproc, seed=seed)
    return runner.finish(
        PROP, tier, seed, pairs, t0,
        assumptions=["exact real arithmetic ('finite' means: defined in exact arithmetic -- no unmasked division by zero, log of 0, sqrt of a negative)",
                     "perm/indep/bounds/empty: P on the open simplex unless stated; closed: P anywhere in [0,1]^(n x K) with unit row sums",
                     "KL non-negativity uses tangent instances log f - log g <= f/g - 1 of the real logarithm",
                     "ot.emd2 uninterpreted, canonical under relabelling of points and exchange of marginals"],
        bounds={"tier": tier, "jobs": len(js), "shapes": "(2,2),(3,2),(2,3) permutations exhaustive",
                "long inputs": "67 (thorough: 300) rows from 2 distinct symbolic rows under reversal, two rotations and an interleaving (MMD: thorough only)"},
        stubs=["ot.emd2 -> uninterpreted"])
