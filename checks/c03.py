"""C03 -- every training update follows the true gradient of the regularised objective.

Layer 1 (back-propagation, GEMINI independent): for each model family an instance is built WITHOUT fit, given symbolic
parameters and symbolic data, the real ``_infer(X)`` and then the real ``_compute_grads(X, y_pred, G)`` are run with a
FREE symbolic upstream gradient G.  Per parameter entry t:   grad_t == - d/dt <G, infer_t(X)>  (G held constant), plus
the documented penalty term of the family.  Because sum_k dy_ik/dt = 0, this with C02 is the chain rule for every GEMINI.

Layer 2 (loop wiring): the real ``fit`` runs for one epoch with validation stubbed to the identity, the RNG stubbed by
symbolic draws / a chosen permutation, the optimiser replaced by a recorder that re-randomises the parameters to fresh
symbols after every step.  At every step the direction handed to the optimiser must equal
-d/dt [ GEMINI(infer_t(X_batch), A_batch) - penalty ], the GEMINI score being re-evaluated by the harness on the
prediction terms of the very ``_infer`` call of that step and differentiated exactly.
"""
from __future__ import annotations

import itertools
import time
from fractions import Fraction

import numpy as np

from symx import core, harness, loader, runner, diff, npx
from symx.core import K, to_rat
from symx.explore import Explorer, PathError
from . import common_gemini as cg
from . import common_models as cm

PROP = "C03"


def _strip(o):
    return {k: v for k, v in o.items() if k != "model"}


# ----------------------------------------------------------------------------------------------------------------------
# Layer 1


def job_backprop(family, shape, timeout_q=20.0, max_paths=4000, null_rows=None):
    """null_rows: features whose rows of W1_ / W_skip_ are exactly zero (eliminated by the proximal step): the entries stay
    symbolic variables -- so that the derivative w.r.t. them is defined -- under the hypothesis that they are 0."""
    loader.install()
    res = {"paths": 0, "queries": 0, "obligations": [], "violations": [], "validated": 0, "witnesses": 0, "samples": []}
    st = {}

    def setup():
        core.CTX.strict = True   # ReLU kinks / cut-point ties are outside the differentiability region
        core.CTX.eq_decisions = bool(null_rows)   # ... but `row norm == 0` is the subject of the null-row jobs
        mdl, X, params, extra = cm.build_symbolic(family, shape)
        n, Kc = extra["n"], extra["K"]
        G = harness.free_matrix(n, Kc, "g")
        for j in (null_rows or []):
            for nm in ("W1_", "W_skip_", "W_"):
                if hasattr(mdl, nm):
                    for w in getattr(mdl, nm)[j]:
                        harness.assume(w == 0)
        st.update(mdl=mdl, params=params, extra=extra)
        return mdl, X, G

    def body(arg):
        mdl, X, G = arg
        P = mdl._infer(X)
        P0 = np.array(P, dtype=object, copy=True)
        grads = mdl._compute_grads(X, P, np.array(G, dtype=object, copy=True))
        return P0, grads, G, X

    ex = Explorer(max_paths=max_paths)
    tagbase = f"backprop/{family}/{cm.shape_str(shape)}" + (f"/null{null_rows}" if null_rows else "")
    for out, pc, trace in ex.run(body, setup):
        res["paths"] += 1
        tag = f"{tagbase}/path{res['paths']}"
        if isinstance(out, PathError):
            res["obligations"].append({"name": tag + "/path-error", "verdict": "inconclusive", "how": repr(out)[:300]})
            continue
        P0, grads, G, X = out
        v, wmodel = harness.reachable(pc, timeout_s=8.0)
        res["queries"] += 1
        if v == "unsat":
            continue
        if v == "sat":
            res["witnesses"] += 1
        params = st["params"]     # list of (name, array) in _get_weights order
        mdl = st["mdl"]
        weights = mdl._get_weights()
        ok = len(grads) == len(weights) and all(np.shape(g) == np.shape(w) for g, w in zip(grads, weights))
        res["obligations"].append({"name": tag + "/one gradient per weight, same shapes and order", "verdict": "unsat" if ok else "sat", "how": "syntactic"})
        if not ok:
            res["violations"].append({"signature": f"{PROP}:{family}:shapes", "what": f"{family}._compute_grads: gradient list does not match _get_weights()",
                                      "replay": {"kind": "backprop", "family": family, "shape": list(shape), "model": {}}})
            continue
        # the objective whose gradient is claimed: <G, P> minus the family's penalty computed inside _compute_grads
        obj = K(0)
        for i in range(P0.shape[0]):
            for k in range(P0.shape[1]):
                obj = obj + to_rat(G[i, k]) * to_rat(P0[i, k])
        pen = cm.compute_grads_penalty(family, mdl, X)
        if pen is not None:
            obj = obj - pen
        bad_params = []
        for (pname, parr), garr in zip(params, grads):
            parr = np.asarray(parr, dtype=object)
            garr = np.asarray(garr, dtype=object)
            for idx in np.ndindex(parr.shape):
                theta = parr[idx]
                ref = -diff.Differ(theta.f[0][0]).drat(obj)
                o = harness.prove_zero(to_rat(garr[idx]) - ref, pc, timeout_s=timeout_q, name=f"{tag}/{pname}{list(idx)}")
                if o.get("how", "").startswith("solver"):
                    res["queries"] += 1
                res["obligations"].append(_strip(o))
                if o["verdict"] == "sat":
                    rep = {"kind": "backprop", "family": family, "shape": list(shape), "param": pname, "null_rows": null_rows,
                           "model": {k: str(x) for k, x in (o.get("model") or {}).items() if "!" not in k}}
                    if o.get("model") and replay(rep):
                        if pname not in bad_params:
                            bad_params.append(pname)
                            res["violations"].append({"signature": f"{PROP}:{family}._compute_grads:{pname}",
                                                      "what": f"{family}._compute_grads: direction for {pname} is not -d/d{pname} of <G, infer(X)> (shape {cm.shape_str(shape)})",
                                                      "replay": rep})
                    else:
                        res["obligations"][-1]["verdict"] = "inconclusive"
        if len(res["samples"]) < 1:
            res["samples"].append({"obligation": tag, "params": [p for p, _ in params], "pc_size": len(pc)})
        if wmodel is not None:
            okv = cm.validate_backprop(family, shape, wmodel, P0, grads)
            if okv is not None:
                res["validated"] += 1
                if not okv:
                    res["obligations"].append({"name": tag + "/engine-validation", "verdict": "inconclusive", "how": "symbolic terms and real run disagree"})
    if ex.truncated or ex.depth_hits:
        res["obligations"].append({"name": tagbase + "/exploration", "verdict": "unknown", "how": "path budget exhausted"})
    return res


# ----------------------------------------------------------------------------------------------------------------------
# Layer 2


def job_loop(family, shape, gemini, batch_size, solver="adam", mlcl=False, timeout_q=20.0, max_paths=3000, perm=None, path=False, path_max_paths=4):
    """path=True: the training loop of the regularisation path (`_path` has its own copy of the step) instead of fit's"""
    loader.install()
    res = {"paths": 0, "queries": 0, "obligations": [], "violations": [], "validated": 0, "witnesses": 0, "samples": []}
    st = {}

    def setup():
        core.CTX.strict = True
        core.CTX.merge_sign = True
        if path:
            env = cm.PathEnv(family, shape, gemini=gemini, batch_size=batch_size, solver=solver, max_iter=1, perm=perm)
        else:
            env = cm.FitEnv(family, shape, gemini=gemini, batch_size=batch_size, solver=solver, max_iter=1, perm=perm, mlcl=mlcl)
        st["env"] = env
        return env

    def body(env):
        if path:
            env.run_path()
        else:
            env.run_fit()
        return env

    ex = Explorer(max_paths=(path_max_paths if path else max_paths))     # path: the branches beyond the first few differ only in proximal / early-stopping decisions
    tagbase = f"{'pathloop' if path else 'loop'}/{family}/{cm.shape_str(shape)}/{gemini}/bs{batch_size}/{solver}{'/mlcl' + (str(mlcl) if isinstance(mlcl, dict) else '') if mlcl else ''}"
    for out, pc, trace in ex.run(body, setup):
        res["paths"] += 1
        tag = f"{tagbase}/path{res['paths']}"
        if isinstance(out, PathError):
            # a fit that raises on a valid configuration is C04's business; here it only means nothing to compare
            res["obligations"].append({"name": tag + "/path-error", "verdict": "inconclusive", "how": repr(out)[:300]})
            continue
        env = out
        v, wmodel = harness.reachable(pc, timeout_s=8.0)
        res["queries"] += 1
        if v == "unsat":
            continue
        if v == "sat":
            res["witnesses"] += 1
        n = env.n
        exp_steps = 1 if family.startswith("Categorical") else -(-n // (batch_size or n))
        if path:
            exp_steps *= 2      # the initial unpenalised fit + one path step
        okc = len(env.steps) == exp_steps
        res["obligations"].append({"name": tag + f"/optimiser steps == ceil(n/batch_size) = {exp_steps}", "verdict": "unsat" if okc else "sat", "how": "syntactic",
                                   "steps": len(env.steps)})
        if mlcl:
            # vacuity guard: some optimiser step must see a constrained pair inside its batch
            act = sum(1 for step in env.steps for (a, b) in env.ml + env.cl if step["rows"] and a in step["rows"] and b in step["rows"])
            res["obligations"].append({"name": tag + "/a constrained pair is active in some batch", "verdict": "unsat" if act else "unknown", "how": "syntactic", "active": act})
        bad = set()
        for si, step in enumerate(env.steps):
            S = env.reference_objective(step)
            for (pname, pvars), garr in zip(step["params"], step["grads"]):
                pvars = np.asarray(pvars, dtype=object)
                garr = np.asarray(garr, dtype=object)
                if pvars.shape != garr.shape:
                    res["obligations"].append({"name": f"{tag}/step{si}/{pname}/shape", "verdict": "sat", "how": "syntactic"})
                    continue
                for idx in np.ndindex(pvars.shape):
                    theta = to_rat(pvars[idx])
                    if not theta.f:
                        # the proximal step of the previous update left an exact constant (a discarded feature): there is no symbol to
                        # differentiate with respect to on this path; that case is the subject of the backprop/*/null-row jobs
                        res["obligations"].append({"name": f"{tag}/step{si}/{pname}{list(idx)}", "verdict": "unknown",
                                                   "how": "parameter entry is an exact constant on this path (see backprop/*/null-row)"})
                        continue
                    ref = -diff.Differ(theta.f[0][0], uf_grad=env.stub.grad_table).drat(S)
                    try:
                        dterm = to_rat(garr[idx]) - ref
                    except Exception as e:      # the code handed the optimiser something that is not a number (e.g. NotImplemented from an in-place ufunc)
                        dterm = None
                    if dterm is None:
                        o = {"name": f"{tag}/step{si}/{pname}{list(idx)}", "verdict": "sat", "how": f"direction entry is not a number: {garr[idx]!r}"[:120], "model": dict(wmodel or {})}
                    else:
                        o = harness.prove_zero(dterm, pc, timeout_s=timeout_q, name=f"{tag}/step{si}/{pname}{list(idx)}")
                    if o.get("how", "").startswith("solver"):
                        res["queries"] += 1
                    res["obligations"].append(_strip(o))
                    if o["verdict"] == "sat" and pname not in bad:
                        rep = {"kind": "loop", "family": family, "shape": list(shape), "gemini": gemini, "batch_size": batch_size, "solver": solver,
                               "mlcl": mlcl, "param": pname, "model": {k: str(x) for k, x in (o.get("model") or {}).items() if "!" not in k}}
                        if o.get("model") and replay(rep):
                            bad.add(pname)
                            res["violations"].append({"signature": f"{PROP}:{family}.fit:{pname}",
                                                      "what": f"{family}.fit ({gemini}, batch_size={batch_size}): direction handed to the optimiser for {pname} is not the negative gradient of GEMINI - penalty",
                                                      "replay": rep})
                        else:
                            res["obligations"][-1]["verdict"] = "inconclusive"
        if len(res["samples"]) < 1:
            res["samples"].append({"obligation": tag, "steps": len(env.steps), "batches": [s["rows"] for s in env.steps], "pc_size": len(pc)})
    if (ex.truncated and not path) or ex.depth_hits:
        res["obligations"].append({"name": tagbase + "/exploration", "verdict": "unknown", "how": "path budget exhausted"})
    return res


# ----------------------------------------------------------------------------------------------------------------------
# replay: central finite differences on the REAL classes


def replay(rep, verbose=False):
    return cm.replay_gradient(rep, verbose=verbose)


# ----------------------------------------------------------------------------------------------------------------------


def jobs(tier):
    q = tier == "quick"
    out = []
    L1 = {
        "LinearModel": [(2, 2, 2), (2, 1, 3)] + ([] if q else [(3, 2, 2), (2, 3, 2), (3, 3, 3), (4, 2, 2)]),
        "KernelRIM": [(2, 2), (3, 2)] + ([] if q else [(2, 3)]),                      # (n, K): X is the n x n training kernel
        "MLPModel": [(2, 1, 1, 2), (1, 2, 2, 2)] + ([] if q else [(2, 2, 2, 2), (2, 1, 2, 3), (2, 2, 3, 2), (3, 1, 2, 2)]),    # (n, d, h, K)
        "SparseLinearModel": [(2, 2, 2)],
        "SparseMLPModel": [(2, 1, 1, 2), (1, 2, 2, 2)] + ([] if q else [(2, 2, 1, 2), (2, 2, 2, 2), (2, 1, 2, 3)]),
        "CategoricalModel": [(2, 2), (2, 3)] + ([] if q else [(3, 3), (3, 4), (4, 2)]),               # (n, K)
        "Douglas": [(1, 2, 1, 2), (2, 1, 2, 2), (1, 1, 3, 2)] + ([] if q else [(2, 2, 1, 2), (1, 2, 3, 2)]),     # (n, d, cuts, K): 3 cuts = the first non-involutive orderings
    }
    for fam, shapes in L1.items():
        for sh in shapes:
            out.append({"name": f"backprop/{fam}/{cm.shape_str(sh)}", "target": "checks.c03:job_backprop",
                        "kwargs": dict(family=fam, shape=sh, timeout_q=20.0 if q else 120.0), "timeout": 300 if q else 2400})
    # parameters as the proximal step leaves them: a feature with exactly-null rows still receives the true gradient
    for fam, sh in [("SparseMLPModel", (2, 2, 1, 2)), ("SparseLinearModel", (2, 2, 2))] + ([] if q else [("SparseMLPModel", (2, 3, 2, 2))]):
        out.append({"name": f"backprop/{fam}/{cm.shape_str(sh)}/null-row", "target": "checks.c03:job_backprop",
                    "kwargs": dict(family=fam, shape=sh, timeout_q=20.0 if q else 120.0, null_rows=[1]), "timeout": 300 if q else 2400})
    L2 = [
        ("LinearModel", (2, 1, 2), "mi", None), ("LinearModel", (2, 1, 2), "mi", 1), ("LinearModel", (3, 1, 2), "mmd_ova", 2),
        ("RIM", (2, 1, 2), "mi", None), ("RIM", (3, 1, 2), "mi", 2),
        ("KernelRIM", (2, 2), "mi", None),
        ("CategoricalModel", (2, 2), "mi", None), ("CategoricalModel", (2, 2), "mmd_ova", None),
        ("MLPModel", (2, 1, 1, 2), "mi", None),
        ("SparseLinearModel", (2, 1, 2), "mi", None),
        ("Douglas", (1, 1, 1, 2), "mi", None),
    ]
    if not q:
        # every registry objective through the loop (the chain GEMINI gradient -> back-propagation -> optimiser), and saturated predictions
        for gname in ("kl_ovo", "tv_ovo", "hellinger_ova", "hellinger_ovo", "chi2_ova", "mmd_ovo", "wasserstein_ovo"):
            L2.append(("LinearModel", (2, 1, 2), gname, None))
        L2 += [("CategoricalModel", (3, 2), "wasserstein_ova", None), ("MLPModel", (2, 1, 2, 2), "mmd_ovo", None), ("SparseMLPModel", (2, 1, 1, 2), "mmd_ova", 1),
               ("Douglas", (2, 1, 2, 2), "wasserstein_ova", None), ("RIM", (3, 2, 2), "mi", 1), ("KernelRIM", (3, 2), "mi", 2), ("KernelRIM", (3, 3), "mi", 1)]
        L2 += [("LinearModel", (3, 2, 2), "mi", 2), ("LinearModel", (2, 1, 2), "wasserstein_ova", None), ("LinearModel", (2, 1, 2), "tv_ova", None),
               ("LinearModel", (2, 1, 3), "chi2_ovo", None), ("MLPModel", (2, 1, 1, 2), "mmd_ova", 1), ("SparseMLPModel", (2, 1, 1, 2), "mi", None),
               ("KernelRIM", (3, 2), "mi", None), ("Douglas", (2, 1, 1, 2), "mi", 1)]
    for fam, sh, gem, bs in L2:
        for solver in (["adam"] if q else ["adam", "sgd"]):
            out.append({"name": f"loop/{fam}/{cm.shape_str(sh)}/{gem}/bs{bs}/{solver}", "target": "checks.c03:job_loop",
                        "kwargs": dict(family=fam, shape=sh, gemini=gem, batch_size=bs, solver=solver, timeout_q=20.0 if q else 120.0),
                        "timeout": 300 if q else 2400})
    # must-link / cannot-link decoration (the extra pairwise terms)
    out.append({"name": "loop/LinearModel/mlcl", "target": "checks.c03:job_loop",
                "kwargs": dict(family="LinearModel", shape=(3, 1, 2), gemini="mi", batch_size=None, mlcl=True), "timeout": 300 if q else 2400})
    # the regularisation path has its own copy of the training step
    out.append({"name": "pathloop/SparseLinearModel/mi/bs2", "target": "checks.c03:job_loop",
                "kwargs": dict(family="SparseLinearModel", shape=(3, 1, 2), gemini="mi", batch_size=2, path=True, path_max_paths=(4 if q else 16)), "timeout": 300 if q else 2400})
    out.append({"name": "pathloop/SparseLinearModel/chi2_ova/bsNone", "target": "checks.c03:job_loop",
                "kwargs": dict(family="SparseLinearModel", shape=(2, 1, 2), gemini="chi2_ova", batch_size=None, path=True, path_max_paths=(4 if q else 16)), "timeout": 300 if q else 2400})
    if not q:
        out.append({"name": "pathloop/SparseMLPModel/mi/bsNone", "target": "checks.c03:job_loop",
                    "kwargs": dict(family="SparseMLPModel", shape=(2, 1, 1, 2), gemini="mi", batch_size=None, path=True), "timeout": 2400})
    # one sample in the same slot of two pairs of one kind: the extra terms must accumulate
    out.append({"name": "loop/LinearModel/mlcl/shared-sample", "target": "checks.c03:job_loop",
                "kwargs": dict(family="LinearModel", shape=(3, 1, 2), gemini="mi", batch_size=None, mlcl={"ml": [(0, 1), (0, 2)], "cl": []}), "timeout": 300 if q else 2400})
    out.append({"name": "loop/CategoricalModel/mlcl/shared-sample", "target": "checks.c03:job_loop",
                "kwargs": dict(family="CategoricalModel", shape=(3, 2), gemini="mi", batch_size=None, mlcl={"ml": [], "cl": [(2, 1), (0, 1)]}), "timeout": 300 if q else 2400})
    # decoration + mini-batches: the pairs must be looked up among the rows of the batch being processed (the stubbed permutation
    # is the reversal, so the batches are [2,1],[0] and [3,2],[1,0]: each constrained pair below sits inside one batch)
    out.append({"name": "loop/LinearModel/mlcl/bs2", "target": "checks.c03:job_loop",
                "kwargs": dict(family="LinearModel", shape=(3, 1, 2), gemini="mi", batch_size=2, mlcl={"ml": [(2, 1)], "cl": [(0, 2)]}), "timeout": 300 if q else 2400})
    # pairs SPLIT across two batches of one epoch contribute nothing (and an in-batch pair keeps the job non-vacuous)
    out.append({"name": "loop/LinearModel/mlcl/bs2/n4/cross-batch", "target": "checks.c03:job_loop",
                "kwargs": dict(family="LinearModel", shape=(4, 1, 2), gemini="mi", batch_size=2, mlcl={"ml": [(3, 2), (3, 0)], "cl": [(2, 1)]}), "timeout": 300 if q else 2400})
    out.append({"name": "loop/LinearModel/mlcl/bs2/n4", "target": "checks.c03:job_loop",
                "kwargs": dict(family="LinearModel", shape=(4, 1, 2), gemini="mi", batch_size=2, mlcl={"ml": [(3, 2)], "cl": [(1, 0)]}), "timeout": 300 if q else 2400})
    return out


def run(tier, seed, only=None, nproc=None):
    t0 = time.time()
    js = [j for j in jobs(tier) if not only or only in j["name"]]
    pairs = runner.run_jobs(js, nproc=nproc, seed=seed)
    return runner.finish(
        PROP, tier, seed, pairs, t0,
        assumptions=["exact real arithmetic; differentiability region (ReLU pre-activations != 0, Douglas cut points distinct)",
                     "sklearn softmax replaced by its contract p_ik = exp(h_ik)/sum_j exp(h_ij); exp is an atom with d exp(t) = exp(t) dt",
                     "layer 2: validation stubbed to identity, RNG stubbed (symbolic draws, fixed permutation), optimiser = recorder that re-randomises parameters"],
        bounds={"tier": tier, "jobs": [j["name"] for j in js]},
        stubs=["sklearn.utils.extmath.softmax -> exp-atom contract", "check_array/validate_data -> identity", "check_random_state -> symbolic draws",
               "SGDOptimizer/AdamOptimizer -> recorder", "ot.emd2 -> uninterpreted (for Wasserstein jobs)"])
