"""C05 -- proximal operators return the exact minimiser of their penalised problem.

Group lasso (linear_prox_grad / group_linear_prox_grad): the REAL function runs on a symbolic weight matrix and a
symbolic alpha >= 0 (zero rows and ties reachable by forking); per row / group the output must satisfy the optimality
certificate of the strictly convex problem (stationarity w* - w + alpha * w*/||w*|| = 0, or ||w|| <= alpha when
w* = 0) AND equal the documented explicit form; the direct statement "no z does better" is posed for h <= 2.

LassoNet hierarchical prox (mlp_prox_grad / group_mlp_prox_grad): quantifier-free certificate on what the code
returned (A: theta* is the clip of u at M*||beta*||, A2: beta* is a non-negative multiple of v, A3: b* = ||beta*||
is (boundary-)stationary for the 1-D convex reduction G), plus the implementation-independent lemmas that make the
certificate sufficient, each discharged by the solver in the same run.
"""
from __future__ import annotations

import itertools
import time
from fractions import Fraction

import numpy as np
import z3

from symx import core, harness, loader, runner, solve, npx
from symx.core import K, to_rat
from symx.explore import Explorer, PathError

PROP = "C05"


def _norm(vec):
    return core.sym_sqrt(sum((to_rat(x) * to_rat(x) for x in vec), K(0)))


def _strip(o):
    return {k: v for k, v in o.items() if k != "model"}


def partitions(items):
    items = list(items)
    if not items:
        yield []
        return
    first, rest = items[0], items[1:]
    for p in partitions(rest):
        for i in range(len(p)):
            yield p[:i] + [[first] + p[i]] + p[i + 1:]
        yield [[first]] + p


# ----------------------------------------------------------------------------------------------------------------------
# group lasso


def job_lasso(d, h, groups=None, timeout_q=20.0, direct=False, max_paths=3000):
    loader.install()
    res = {"paths": 0, "queries": 0, "obligations": [], "violations": [], "validated": 0, "witnesses": 0, "samples": []}
    st = {}

    def setup():
        pg = loader.load("sparse._prox_grad")
        W = harness.free_matrix(d, h, "w")
        alpha = core.var("alpha", "0+")
        st.update(pg=pg)
        return W, alpha

    def body(arg):
        W, alpha = arg
        pg = st["pg"]
        if groups is None:
            out = pg.linear_prox_grad(W.copy(), alpha)
            rows = [[i] for i in range(d)]
        else:
            out = pg.group_linear_prox_grad(groups, W.copy(), alpha)
            rows = groups
        return out, rows, W, alpha

    ex = Explorer(max_paths=max_paths)
    gname = "rows" if groups is None else "groups" + str(groups).replace(" ", "")
    for ret, pc, trace in ex.run(body, setup):
        res["paths"] += 1
        tag = f"lasso/d{d}h{h}/{gname}/path{res['paths']}"
        if isinstance(ret, PathError):
            _path_error(res, ret, pc, tag, {"kind": "lasso", "d": d, "h": h, "groups": groups}, "lasso:not-minimiser")
            continue
        out, rows, W, alpha = ret
        v, wmodel = harness.reachable(pc, timeout_s=8.0)
        res["queries"] += 1
        if v == "unsat":
            continue
        if v == "sat":
            res["witnesses"] += 1
        out = np.asarray(out, dtype=object)
        if out.shape != W.shape:
            res["obligations"].append({"name": tag + "/shape", "verdict": "sat", "how": "syntactic"})
            res["violations"].append({"signature": f"{PROP}:lasso:shape", "what": "group-lasso prox returns the wrong shape", "replay": {"kind": "lasso", "d": d, "h": h, "groups": groups, "model": {}}})
            continue
        flat_out = [to_rat(x) for x in out.reshape(-1)]
        dres = harness.check_defined(flat_out, pc, name=tag + "/defined")
        res["queries"] += dres.get("n_guards", 0)
        res["obligations"].append(_strip(dres))
        if dres["verdict"] == "sat":
            _report(res, {"kind": "lasso", "d": d, "h": h, "groups": groups}, dres, "lasso:undefined", "group-lasso prox output undefined (division by zero / nan)")
        # harness decisions first (they extend the path), then all queries under the extended path condition
        plan = []
        for g in rows:
            w = [to_rat(x) for x in W[g].reshape(-1)]
            ws = [to_rat(x) for x in out[g].reshape(-1)]
            nw = _norm(w)
            small = bool(nw <= alpha)
            plan.append((g, w, ws, nw, small))
        pc = list(ex.pc)
        for g, w, ws, nw, small in plan:
            nws = _norm(ws)
            obs = []
            # certificate: w* = 0  and ||w|| <= alpha   or   (w - w*) ||w*|| = alpha w*
            zero = all(x.c == 0 for x in ws)
            if zero:
                obs.append(("cert: w*=0 => ||w||<=alpha", harness.prove(nw <= alpha, pc, timeout_s=timeout_q, fids=harness.all_factors([nw, alpha]))))
            else:
                for j in range(len(w)):
                    obs.append((f"cert: stationarity[{j}]", harness.prove_zero((w[j] - ws[j]) * nws - alpha * ws[j], pc, timeout_s=timeout_q)))
            # the documented explicit form
            for j in range(len(w)):
                exp = K(0) if small else (1 - alpha / nw) * w[j]
                obs.append((f"explicit form[{j}]", harness.prove_zero(ws[j] - exp, pc, timeout_s=timeout_q)))
            for nm, o in obs:
                o["name"] = f"{tag}/g{g}/{nm}"
                res["queries"] += 1
                res["obligations"].append(_strip(o))
                if o["verdict"] == "sat":
                    _report(res, {"kind": "lasso", "d": d, "h": h, "groups": groups}, o, "lasso:not-minimiser", f"group-lasso prox output is not the minimiser ({nm})")
            if direct and len(w) <= 2:
                o = _direct_lasso(w, ws, alpha, pc, timeout_q * 3)
                o["name"] = f"{tag}/g{g}/direct: no z does better"
                res["queries"] += 1
                res["obligations"].append(_strip(o))
                if o["verdict"] == "sat":
                    _report(res, {"kind": "lasso", "d": d, "h": h, "groups": groups}, o, "lasso:not-minimiser", "a competitor z has a lower objective")
        if len(res["samples"]) < 2:
            res["samples"].append({"obligation": tag, "out": [repr(x)[:60] for x in flat_out][:4], "pc_size": len(pc)})
        if wmodel is not None and _validate_lasso(d, h, groups, flat_out, wmodel):
            res["validated"] += 1
    if ex.truncated or ex.depth_hits:
        res["obligations"].append({"name": f"lasso/d{d}h{h}/{gname}/exploration", "verdict": "unknown", "how": "path budget exhausted"})
    return res


def _direct_lasso(w, ws, alpha, pc, timeout_q):
    """exists z: 0.5||z-w||^2 + alpha||z|| < 0.5||w*-w||^2 + alpha||w*||  ?"""
    z = [core.var(f"z_{j}") for j in range(len(w))]
    old = core.CTX.merge_sign
    core.CTX.merge_sign = True     # |.| of the competitor as a sign atom: no harness decision after the path is fixed
    try:
        nz = _norm(z)
        nws = _norm(ws)
    finally:
        core.CTX.merge_sign = old
    objz = sum(((z[j] - w[j]) * (z[j] - w[j]) for j in range(len(w))), K(0)) * Fraction(1, 2) + alpha * nz
    objs = sum(((ws[j] - w[j]) * (ws[j] - w[j]) for j in range(len(w))), K(0)) * Fraction(1, 2) + alpha * nws
    return harness.prove(objz >= objs, pc, timeout_s=timeout_q, fids=harness.all_factors([objz - objs]))


def _validate_lasso(d, h, groups, flat_out, model):
    try:
        pg = loader.real("sparse._prox_grad")
        W = np.array([[float(model.get(f"w_{i}_{j}", 0)) for j in range(h)] for i in range(d)])
        a = float(model.get("alpha", 0))
        real = pg.linear_prox_grad(W, a) if groups is None else pg.group_linear_prox_grad(groups, W, a)
        env = harness.model_env(model, default=0.0)
        memo = {}
        sym = np.array([core.eval_float(x, env, memo) for x in flat_out]).reshape(d, h)
        return bool(np.allclose(sym, real, rtol=1e-6, atol=1e-9))
    except Exception:
        return False


# ----------------------------------------------------------------------------------------------------------------------
# hierarchical prox


def job_hier(d, k, h, groups=None, timeout_q=20.0, max_paths=6000, m_zero=False):
    """d features (rows), k skip outputs, h hidden units.  groups: list of lists of feature indices or None."""
    loader.install()
    res = {"paths": 0, "queries": 0, "obligations": [], "violations": [], "validated": 0, "witnesses": 0, "samples": []}
    st = {}

    def setup():
        pg = loader.load("sparse._prox_grad")
        V = harness.free_matrix(d, k, "v")
        U = harness.free_matrix(d, h, "u")
        alpha = core.var("alpha", "0+")
        M = K(0) if m_zero else core.var("M", "0+")
        rows = [[i] for i in range(d)] if groups is None else groups
        # scope of the property: rows whose skip weights are not all zero
        for g in rows:
            nv = _norm([V[i, j] for i in g for j in range(k)])
            harness.assume(nv > 0)
        st.update(pg=pg, rows=rows)
        return V, U, alpha, M

    def body(arg):
        V, U, alpha, M = arg
        pg = st["pg"]
        if groups is None:
            B, T = pg.mlp_prox_grad(V.copy(), U.copy(), alpha, M)
        else:
            B, T = pg.group_mlp_prox_grad(groups, V.copy(), U.copy(), alpha, M)
        return B, T, V, U, alpha, M

    ex = Explorer(max_paths=max_paths)
    gname = "rows" if groups is None else "groups" + str(groups).replace(" ", "")
    cfg = {"kind": "hier", "d": d, "k": k, "h": h, "groups": groups, "m_zero": m_zero}
    for ret, pc, trace in ex.run(body, setup):
        res["paths"] += 1
        tag = f"hier/d{d}k{k}h{h}{'/M0' if m_zero else ''}/{gname}/path{res['paths']}"
        if isinstance(ret, PathError):
            _path_error(res, ret, pc, tag, cfg, "hier:not-minimiser")
            continue
        B, T, V, U, alpha, M = ret
        npc = len(pc)
        B = np.asarray(B, dtype=object)
        T = np.asarray(T, dtype=object)
        if B.shape != V.shape or T.shape != U.shape:
            res["obligations"].append({"name": tag + "/shape", "verdict": "sat", "how": "syntactic"})
            res["violations"].append({"signature": f"{PROP}:hier:shape", "what": "hierarchical prox returns the wrong shape", "replay": dict(cfg, model={})})
            continue
        outs = [to_rat(x) for x in B.reshape(-1)] + [to_rat(x) for x in T.reshape(-1)]
        if any(isinstance(x, core.UndefinedValue) for x in list(B.reshape(-1)) + list(T.reshape(-1))):
            res["obligations"].append({"name": tag + "/defined", "verdict": "sat", "how": "undefined-on-path"})
            continue
        obs = []
        # the certificate is evaluated by the harness under the path's own continuation (harness decisions extend the
        # path; each extension is explored as its own path by the explorer)
        for g in st["rows"]:
            v = [to_rat(V[i, j]) for i in g for j in range(k)]
            u = [to_rat(U[i, j]) for i in g for j in range(h)]
            bs = [to_rat(B[i, j]) for i in g for j in range(k)]
            ts = [to_rat(T[i, j]) for i in g for j in range(h)]
            nv = _norm(v)
            dot = sum((bs[j] * v[j] for j in range(len(v))), K(0))
            # (A2) beta* is a non-negative multiple of v
            for a in range(len(v)):
                for b in range(a + 1, len(v)):
                    obs.append((f"g{g}/A2 collinear[{a},{b}]", "zero", bs[a] * v[b] - bs[b] * v[a]))
            obs.append((f"g{g}/A2 same direction", "bool", dot >= 0))
            bstar = dot / nv          # = ||beta*|| given A2
            # (A) theta*_j = sign(u_j) * min(|u_j|, M b*)
            Mb = M * bstar
            for j in range(len(u)):
                au = core.sym_abs(u[j])
                cap = au if bool(au <= Mb) else Mb
                sg = K(1) if bool(u[j] >= 0) else K(-1)
                obs.append((f"g{g}/A theta[{j}] is the clip of u at M||beta*||", "zero", ts[j] - sg * cap))
            # (A3) stationarity of G at b*
            slack = K(0)
            for j in range(len(u)):
                e = core.sym_abs(u[j]) - Mb
                if bool(e > 0):
                    slack = slack + e
            gprime = bstar - nv + alpha - M * slack
            if bool(bstar > 0):
                obs.append((f"g{g}/A3 G'(b*)=0", "zero", gprime))
            else:
                obs.append((f"g{g}/A3 b*=0", "zero", bstar))
                obs.append((f"g{g}/A3 G'(0+)>=0", "bool", gprime >= 0))
        pc = list(ex.pc)   # includes the harness's own decisions
        vv, wmodel = harness.reachable(pc, timeout_s=8.0)
        res["queries"] += 1
        if vv == "unsat":
            continue
        if vv == "sat":
            res["witnesses"] += 1
        dres = harness.check_defined(outs, pc, name=tag + "/defined")
        res["queries"] += dres.get("n_guards", 0)
        res["obligations"].append(_strip(dres))
        if dres["verdict"] == "sat":
            _report(res, cfg, dres, "hier:undefined", "hierarchical prox output undefined on an in-scope input")
        for nm, kind, x in obs:
            if kind == "zero":
                o = harness.prove_zero(x, pc, timeout_s=timeout_q)
            else:
                o = harness.prove(x, pc, timeout_s=timeout_q, fids=harness.all_factors(outs))
            o["name"] = f"{tag}/{nm}"
            res["queries"] += 1
            res["obligations"].append(_strip(o))
            if o["verdict"] == "sat":
                _report(res, cfg, o, "hier:not-minimiser", f"LassoNet prox output violates the optimality certificate ({nm})")
        if len(res["samples"]) < 2:
            res["samples"].append({"obligation": tag, "beta*": [repr(x)[:70] for x in outs[:2]], "pc_size": len(pc), "code_decisions": npc})
        if wmodel is not None and _validate_hier(cfg, outs, wmodel):
            res["validated"] += 1
    if ex.truncated or ex.depth_hits:
        res["obligations"].append({"name": f"hier/d{d}k{k}h{h}/{gname}/exploration", "verdict": "unknown", "how": "path budget exhausted"})
    return res


def ref_hier_prox(v, u, alpha, M):
    """Hier-Prox as LassoNet states it (Lemhadri et al. 2021, Alg. 3), written independently of the library on lists of terms:
    sort |u| decreasingly, w_m = M/(1+m M^2) * max(||v|| - alpha + M sum_{j<=m} |u|_(j), 0), take the first m with
    |u|_(m+1) <= w_m <= |u|_(m), beta* = w_m/(M ||v||) v (written without the division by M), theta* = sign(u) min(|u|, w_m)."""
    import functools
    h = len(u)
    au = [core.sym_abs(x) for x in u]
    order = sorted(range(h), key=functools.cmp_to_key(lambda a, b: -1 if bool(au[a] > au[b]) else (1 if bool(au[a] < au[b]) else 0)))
    srt = [au[i] for i in order]
    nv = _norm(v)
    cum = K(0)
    for m in range(h + 1):
        if m > 0:
            cum = cum + srt[m - 1]
        t = nv - alpha + M * cum
        t = t if bool(t > 0) else K(0)
        den = 1 + m * M * M
        w = M * t / den
        if (m == 0 or bool(w <= srt[m - 1])) and (m == h or bool(srt[m] <= w)):
            x = t / (den * nv)
            beta = [x * vi for vi in v]
            theta = [(K(1) if bool(uj >= 0) else K(-1)) * (aj if bool(aj <= w) else w) for uj, aj in zip(u, au)]
            return beta, theta
    return None


def job_hier_ref(d, k, h, groups=None, timeout_q=20.0, max_paths=20000, strict=False, signs=None, M_value=None):
    """differential harness: the REAL operator and ref_hier_prox are executed on the same symbolic inputs; on every joint
    path the outputs must be the same terms (normal form) or provably equal.  Cheap (no optimality proof per path), so it
    reaches 3 hidden units / grouped blocks with several skip outputs in the quick tier; the reference is itself tied to the
    property by the certificate jobs (same operator, smaller shapes) and by the implementation-independent replay oracle."""
    loader.install()
    res = {"paths": 0, "queries": 0, "obligations": [], "violations": [], "validated": 0, "witnesses": 0, "samples": []}
    st = {}
    rows = [[i] for i in range(d)] if groups is None else groups

    def setup():
        pg = loader.load("sparse._prox_grad")
        V = harness.free_matrix(d, k, "v")
        U = harness.free_matrix(d, h, "u")
        alpha = core.var("alpha", "0+")
        # M_value: a concrete hierarchy constant makes every decision linear in (u, |v|, alpha): decisive feasibility answers
        M = core.var("M", "0+") if M_value is None else K(Fraction(M_value))
        for g in rows:
            harness.assume(_norm([V[i, j] for i in g for j in range(k)]) > 0)
        core.CTX.strict = strict       # strict: ties between breakpoints / at the clip level are left to the non-strict smaller shapes
        if signs is not None:          # one job per sign pattern of the hidden weights (parallelism); zero entries: smaller shapes
            flat = [U[i, j] for i in range(d) for j in range(h)]
            for x, sg in zip(flat, signs):
                harness.assume(x > 0 if sg > 0 else x < 0)
                harness.mark_sign(x, "+") if sg > 0 else None
        st.update(pg=pg)
        return V, U, alpha, M

    def body(arg):
        V, U, alpha, M = arg
        pg = st["pg"]
        if groups is None:
            B, T = pg.mlp_prox_grad(V.copy(), U.copy(), alpha, M)
        else:
            B, T = pg.group_mlp_prox_grad(groups, V.copy(), U.copy(), alpha, M)
        refs = []
        for g in rows:
            refs.append(ref_hier_prox([to_rat(V[i, j]) for i in g for j in range(k)], [to_rat(U[i, j]) for i in g for j in range(h)], alpha, M))
        return B, T, refs

    ex = Explorer(max_paths=max_paths)
    gname = "rows" if groups is None else "groups" + str(groups).replace(" ", "")
    cfg = {"kind": "hier", "d": d, "k": k, "h": h, "groups": groups, "m_zero": False, "M_value": (str(M_value) if M_value is not None else None)}
    for ret, pc, trace in ex.run(body, setup):
        res["paths"] += 1
        tag = f"hier-ref/d{d}k{k}h{h}/{gname}{'/signs' + ''.join('+' if x > 0 else '-' for x in signs) if signs else ''}{'/M=' + str(M_value) if M_value is not None else ''}/path{res['paths']}"
        if isinstance(ret, PathError):
            _path_error(res, ret, pc, tag, cfg, "hier:not-minimiser")
            continue
        B, T, refs = ret
        B = np.asarray(B, dtype=object)
        T = np.asarray(T, dtype=object)
        if B.shape != (d, k) or T.shape != (d, h):
            res["obligations"].append({"name": tag + "/shape", "verdict": "sat", "how": "syntactic"})
            res["violations"].append({"signature": f"{PROP}:hier:shape", "what": "hierarchical prox returns the wrong shape", "replay": dict(cfg, model={})})
            continue
        diffs = []
        missing = False
        for g, r in zip(rows, refs):
            if r is None:
                missing = True
                continue
            bs = [B[i, j] for i in g for j in range(k)]
            ts = [T[i, j] for i in g for j in range(h)]
            for nm, a, b in [(f"beta[{g}][{j}]", bs[j], r[0][j]) for j in range(len(bs))] + [(f"theta[{g}][{j}]", ts[j], r[1][j]) for j in range(len(ts))]:
                diffs.append((nm, a, b))
        trivially = all((not isinstance(a, core.UndefinedValue)) and (to_rat(a) - to_rat(b)).c == 0 for _, a, b in diffs) and not missing
        if trivially:
            # identical normal forms on this path: discharged without a query (a path kept by an `unknown` feasibility answer costs nothing)
            res["obligations"].append({"name": tag + f"/{len(diffs)} outputs == reference", "verdict": "unsat", "how": "normal-form"})
            continue
        vv, wmodel = harness.reachable(pc, timeout_s=8.0)
        res["queries"] += 1
        if vv == "unsat":
            continue
        if vv == "sat":
            res["witnesses"] += 1
        if missing:
            res["obligations"].append({"name": tag + "/reference found its breakpoint", "verdict": "unknown" if vv != "sat" else "inconclusive", "how": "no m satisfies the bracket on this path"})
            continue
        for nm, a, b in diffs:
            if isinstance(a, core.UndefinedValue):
                res["obligations"].append({"name": f"{tag}/{nm} defined", "verdict": "sat", "how": "undefined-on-path"})
                o = {"verdict": "sat", "model": wmodel, "name": f"{tag}/{nm} defined"}
                if wmodel:
                    _report(res, cfg, o, "hier:undefined", "hierarchical prox output undefined on an in-scope input")
                continue
            o = harness.prove_zero(to_rat(a) - to_rat(b), pc, timeout_s=timeout_q, name=f"{tag}/{nm} == reference")
            if o.get("how", "").startswith("solver"):
                res["queries"] += 1
            res["obligations"].append(_strip(o))
            if o["verdict"] == "sat":
                _report(res, cfg, o, "hier:not-minimiser", f"LassoNet prox output differs from Hier-Prox ({nm})")
        if len(res["samples"]) < 2:
            res["samples"].append({"obligation": tag, "pc_size": len(pc)})
    if ex.truncated or ex.depth_hits:
        res["obligations"].append({"name": f"hier-ref/d{d}k{k}h{h}/{gname}/exploration", "verdict": "unknown", "how": "path budget exhausted"})
    return res


def _inputs_hier(cfg, model):
    d, k, h = cfg["d"], cfg["k"], cfg["h"]
    V = np.array([[float(Fraction(model.get(f"v_{i}_{j}", 1))) for j in range(k)] for i in range(d)])
    U = np.array([[float(Fraction(model.get(f"u_{i}_{j}", 0))) for j in range(h)] for i in range(d)])
    a = float(Fraction(model.get("alpha", 0)))
    M = 0.0 if cfg.get("m_zero") else float(Fraction(cfg["M_value"])) if cfg.get("M_value") else float(Fraction(model.get("M", 0)))
    return V, U, a, M


def _validate_hier(cfg, outs, model):
    try:
        pg = loader.real("sparse._prox_grad")
        V, U, a, M = _inputs_hier(cfg, model)
        if cfg["groups"] is None:
            B, T = pg.mlp_prox_grad(V, U, a, M)
        else:
            B, T = pg.group_mlp_prox_grad(cfg["groups"], V, U, a, M)
        env = harness.model_env(model, default=0.0)
        memo = {}
        sym = np.array([core.eval_float(x, env, memo) for x in outs])
        real = np.concatenate([np.asarray(B).reshape(-1), np.asarray(T).reshape(-1)])
        return bool(np.allclose(sym, real, rtol=1e-6, atol=1e-9))
    except Exception:
        return False


def job_hier_direct(k=1, h=1, timeout_q=120.0):
    """independent cross-check of the certificate: the DIRECT statement for the smallest shape --
    no feasible (beta, theta) has a smaller objective than what the code returned (one existential NRA query per path)."""
    loader.install()
    res = {"paths": 0, "queries": 0, "obligations": [], "violations": [], "validated": 0, "witnesses": 0, "samples": []}
    box = {}

    def setup():
        pg = loader.load("sparse._prox_grad")
        V = harness.free_matrix(1, k, "v")
        U = harness.free_matrix(1, h, "u")
        alpha = core.var("alpha", "0+")
        M = core.var("M", "0+")
        harness.assume(_norm([V[0, j] for j in range(k)]) > 0)
        box["pg"] = pg
        return V, U, alpha, M

    def body(arg):
        V, U, alpha, M = arg
        B, T = box["pg"].mlp_prox_grad(V.copy(), U.copy(), alpha, M)
        return B, T, V, U, alpha, M

    ex = Explorer(max_paths=500)
    for ret, pc, trace in ex.run(body, setup):
        res["paths"] += 1
        tag = f"hier-direct/k{k}h{h}/path{res['paths']}"
        if isinstance(ret, PathError):
            res["obligations"].append({"name": tag + "/path-error", "verdict": "inconclusive", "how": repr(ret)[:200]})
            continue
        B, T, V, U, alpha, M = ret
        old = core.CTX.merge_sign
        core.CTX.merge_sign = True
        try:
            be = [core.var(f"be_{j}") for j in range(k)]
            th = [core.var(f"th_{j}") for j in range(h)]
            nb = _norm(be)
            v = [to_rat(V[0, j]) for j in range(k)]
            u = [to_rat(U[0, j]) for j in range(h)]
            bs = [to_rat(B[0, j]) for j in range(k)]
            ts = [to_rat(T[0, j]) for j in range(h)]
            half = Fraction(1, 2)
            obj = lambda b_, t_, nrm: sum(((b_[j] - v[j]) ** 2 for j in range(k)), K(0)) * half + sum(((t_[j] - u[j]) ** 2 for j in range(h)), K(0)) * half + alpha * nrm
            feas = [core.sym_abs(th[j]) <= M * nb for j in range(h)]
            import z3
            hyp = [f.t if isinstance(f, core.SymBool) else z3.BoolVal(bool(f)) for f in feas]
            goal = obj(be, th, nb) >= obj(bs, ts, _norm(bs))
        finally:
            core.CTX.merge_sign = old
        o = harness.prove(goal, list(ex.pc), timeout_s=timeout_q, extra=hyp, fids=harness.all_factors([to_rat(x) for x in bs + ts] + [nb]))
        o["name"] = tag + "/no feasible (beta, theta) has a smaller objective"
        res["queries"] += 1
        res["obligations"].append(_strip(o))
        if o["verdict"] == "sat":
            cfg = {"kind": "hier", "d": 1, "k": k, "h": h, "groups": None, "m_zero": False}
            _report(res, cfg, o, "hier:not-minimiser", "a feasible competitor has a smaller objective than the LassoNet prox output")
    res["samples"].append({"shape": [k, h], "paths": res["paths"]})
    return res


# ----------------------------------------------------------------------------------------------------------------------
# lemmas: the certificate implies global optimality (implementation independent; proved in every run)


def job_dtype():
    """CONCRETE witness: the operators on whole-valued inputs stored as integer arrays give what they give on the same values stored as
    floats (and that is the minimiser, by the replay oracle) -- an output array must not inherit an integer dtype"""
    res = {"paths": 0, "queries": 0, "obligations": [], "violations": [], "validated": 0, "witnesses": 0, "samples": []}
    pg = loader.real("sparse._prox_grad")
    cases = [("hier", dict(V=[[-4]], U=[[3]], a=0.0, M=0.5, groups=None)), ("hier", dict(V=[[3, -1]], U=[[5, -2, 1]], a=1.0, M=0.25, groups=None)),
             ("hier", dict(V=[[2], [1]], U=[[4, 1], [-3, 2]], a=0.5, M=0.75, groups=[[0, 1]])), ("lasso", dict(W=[[3, 4], [1, 0]], a=1.0, groups=None)),
             ("lasso", dict(W=[[3], [4], [2]], a=1.0, groups=[[0, 1], [2]]))]
    for kind, c in cases:
        res["paths"] += 1
        with np.errstate(all="ignore"):
            if kind == "hier":
                f = (lambda V, U: pg.mlp_prox_grad(V, U, c["a"], c["M"])) if c["groups"] is None else (lambda V, U: pg.group_mlp_prox_grad(c["groups"], V, U, c["a"], c["M"]))
                oi = f(np.array(c["V"], dtype=int), np.array(c["U"], dtype=int))
                of = f(np.array(c["V"], dtype=float), np.array(c["U"], dtype=float))
            else:
                f = (lambda W: (pg.linear_prox_grad(W, c["a"]),)) if c["groups"] is None else (lambda W: (pg.group_linear_prox_grad(c["groups"], W, c["a"]),))
                oi, of = f(np.array(c["W"], dtype=int)), f(np.array(c["W"], dtype=float))
        ok = all(np.allclose(np.asarray(a, dtype=float), np.asarray(b, dtype=float), rtol=1e-12, atol=1e-12) for a, b in zip(oi, of))
        res["obligations"].append({"name": f"dtype/{kind}/{c}: integer-stored inputs give the result of the same values stored as floats", "verdict": "unsat" if ok else "sat", "how": "concrete run"})
        if not ok and not res["violations"]:
            res["violations"].append({"signature": f"{PROP}:{kind}:integer-inputs", "what": f"{kind} prox on integer-stored inputs {c} differs from the result on the same values as floats (an output inherits the integer dtype)",
                                      "replay": {"kind": "dtype"}})
    return res


def job_lemmas(timeout_q=60.0):
    R = z3.Real
    res = {"paths": 1, "queries": 0, "obligations": [], "violations": [], "validated": 0, "witnesses": 0, "samples": []}

    def lemma(name, hyps, goal):
        v, _, info = solve.check(list(hyps) + [z3.Not(goal)], timeout_s=timeout_q)
        w, _, _ = solve.check(list(hyps), timeout_s=10.0)   # vacuity
        res["queries"] += 2
        res["obligations"].append({"name": "lemma/" + name, "verdict": v if w == "sat" else "inconclusive", "how": "solver", **info})

    be, v, a, b = R("be"), R("v"), R("a"), R("b")
    lemma("L0 (beta-v)^2 >= (|beta|-|v|)^2", [a >= 0, a * a == be * be, b >= 0, b * b == v * v], (be - v) * (be - v) >= (a - b) * (a - b))
    b1, b2, v1, v2 = R("b1"), R("b2"), R("v1"), R("v2")
    lemma("L2 ||beta-v||^2 >= (||beta||-||v||)^2 (k=2)", [a >= 0, a * a == b1 * b1 + b2 * b2, b >= 0, b * b == v1 * v1 + v2 * v2],
          (b1 - v1) * (b1 - v1) + (b2 - v2) * (b2 - v2) >= (a - b) * (a - b))
    th, u, c, au = R("th"), R("u"), R("c"), R("au")
    mx = z3.If(au - c > 0, au - c, 0)
    lemma("L1 |theta|<=c => (theta-u)^2 >= max(|u|-c,0)^2", [c >= 0, th <= c, th >= -c, au >= 0, au * au == u * u], (th - u) * (th - u) >= mx * mx)
    M, bs, bb, aa = R("M"), R("bs"), R("bb"), R("aa")
    phi = lambda x: z3.If(aa - M * x > 0, (aa - M * x) * (aa - M * x) / 2, 0)
    slope = -M * z3.If(aa - M * bs > 0, aa - M * bs, 0)
    lemma("L3 convex tangent of 0.5*max(a-Mb,0)^2", [aa >= 0, M >= 0, bb >= 0, bs >= 0], phi(bb) >= phi(bs) + slope * (bb - bs))
    # T2: tangents + (boundary-)stationarity => b* minimises G
    for hh in (1, 2, 3):
        F = [R(f"F{j}") for j in range(hh)]
        Fs = [R(f"Fs{j}") for j in range(hh)]
        D = [R(f"D{j}") for j in range(hh)]
        nv, al = R("nv"), R("al")
        hyps = [bb >= 0, bs >= 0, al >= 0, nv >= 0] + [F[j] >= Fs[j] + D[j] * (bb - bs) for j in range(hh)]
        gp = bs - nv + al + sum(D)
        hyps.append(z3.Or(z3.And(bs > 0, gp == 0), z3.And(bs == 0, gp >= 0)))
        goal = (bb - nv) * (bb - nv) / 2 + al * bb + sum(F) >= (bs - nv) * (bs - nv) / 2 + al * bs + sum(Fs)
        lemma(f"T2 stationary point of the convex 1-D reduction is its minimiser (h={hh})", hyps, goal)
    res["samples"].append({"lemmas": [o["name"] for o in res["obligations"]]})
    return res


# ----------------------------------------------------------------------------------------------------------------------
# replay


def _path_error(res, err, pc, tag, cfg, sig):
    v, wmodel = harness.reachable(pc, timeout_s=10.0)
    if v == "unsat":
        return
    res["obligations"].append({"name": tag + "/path-error", "verdict": "inconclusive", "how": repr(err)[:200]})
    if v == "sat":
        base = {k: str(x) for k, x in wmodel.items() if k[0] in "wvuaM" and "!" not in k}
        # the witness, then generic points of the same path (the witness of a path is often degenerate: zero / rank-one blocks)
        import random
        rng = random.Random(3)
        cands = [base]
        for _ in range(400):
            if len(cands) >= 12:
                break
            m = {k: (str(Fraction(rng.uniform(-2, 2)).limit_denominator(100)) if k[0] in "wvu" else str(Fraction(rng.uniform(0.05, 1.5)).limit_denominator(100)))
                 for k in base}
            if harness.pc_holds(pc, {k: Fraction(x) for k, x in m.items()}) is True:
                cands.append(m)
        for m in cands:
            rep = dict(cfg, model=m)
            try:
                bad = replay(rep)
            except Exception as e:
                bad = True
                rep["exception"] = f"{type(e).__name__}: {e}"
            if bad:
                res["violations"].append({"signature": f"{PROP}:{sig}", "what": "prox output is not the minimiser (concrete fallback after an engine path error)", "replay": rep})
                break


def _report(res, cfg, o, sig, what):
    model = o.get("model")
    if not model:
        res["obligations"][-1]["verdict"] = "inconclusive"
        return
    rep = dict(cfg, model={k: str(v) for k, v in model.items() if k[0] in "wvuaM" and "!" not in k})
    if replay(rep):
        res["violations"].append({"signature": f"{PROP}:{sig}", "what": what, "replay": rep})
    else:
        res["obligations"][-1]["verdict"] = "inconclusive"


def _obj_lasso(z, w, a):
    return 0.5 * float(np.sum((z - w) ** 2)) + a * float(np.linalg.norm(z))


def replay(rep, verbose=False):
    if rep.get("kind") == "dtype":
        return bool(job_dtype()["violations"])
    pg = loader.real("sparse._prox_grad")
    model = {k: Fraction(v) for k, v in rep.get("model", {}).items()}
    rng = np.random.default_rng(0)
    if rep["kind"] == "lasso":
        d, h, groups = rep["d"], rep["h"], rep["groups"]
        W = np.array([[float(model.get(f"w_{i}_{j}", 0)) for j in range(h)] for i in range(d)])
        a = float(model.get("alpha", 0))
        with np.errstate(all="ignore"):
            out = pg.linear_prox_grad(W.copy(), a) if groups is None else pg.group_linear_prox_grad(groups, W.copy(), a)
        out = np.asarray(out, dtype=float)
        if out.shape != W.shape or not np.all(np.isfinite(out)):
            if verbose:
                print("W=", W.tolist(), "alpha=", a, "output=", out.tolist())
            return True
        rows = [[i] for i in range(d)] if groups is None else groups
        for g in rows:
            w = W[g].reshape(-1)
            ws = out[g].reshape(-1)
            nw = np.linalg.norm(w)
            ref = np.zeros_like(w) if nw <= a else (1 - a / nw) * w
            if not np.allclose(ws, ref, rtol=1e-7, atol=1e-9 * max(1.0, nw)):
                if verbose:
                    print("group", g, "w=", w.tolist(), "alpha=", a, "library=", ws.tolist(), "minimiser=", ref.tolist(),
                          "objective(library)=", _obj_lasso(ws, w, a), "objective(minimiser)=", _obj_lasso(ref, w, a))
                return True
        return False
    # hierarchical: dense 1-D minimisation of G + feasibility + objective comparison
    cfg = rep
    V, U, a, M = _inputs_hier(cfg, model)
    with np.errstate(all="ignore"):
        if cfg["groups"] is None:
            B, T = pg.mlp_prox_grad(V.copy(), U.copy(), a, M)
        else:
            B, T = pg.group_mlp_prox_grad(cfg["groups"], V.copy(), U.copy(), a, M)
    B, T = np.asarray(B, dtype=float), np.asarray(T, dtype=float)
    rows = [[i] for i in range(cfg["d"])] if cfg["groups"] is None else cfg["groups"]
    for g in rows:
        v, u = V[g].reshape(-1), U[g].reshape(-1)
        bs, ts = B[g].reshape(-1), T[g].reshape(-1)
        nv = np.linalg.norm(v)
        if nv == 0:
            continue
        if not (np.all(np.isfinite(bs)) and np.all(np.isfinite(ts))):
            return True
        scale = max(1.0, nv, np.abs(u).max() if len(u) else 0.0)
        if np.any(np.abs(ts) > M * np.linalg.norm(bs) + 1e-9 * scale):
            if verbose:
                print("infeasible: |theta*| > M ||beta*||", ts.tolist(), M * np.linalg.norm(bs))
            return True
        obj = lambda be, th: 0.5 * np.sum((be - v) ** 2) + 0.5 * np.sum((th - u) ** 2) + a * np.linalg.norm(be)
        mine = obj(bs, ts)
        # best over b = ||beta|| on a dense grid (beta = b v/||v||, theta = clip(u, +-M b)), refined
        lo, hi = 0.0, nv + 1.0
        best = np.inf
        for _ in range(6):
            grid = np.linspace(lo, hi, 2001)
            vals = [obj(b * v / nv, np.clip(u, -M * b, M * b)) for b in grid]
            i = int(np.argmin(vals))
            best = min(best, vals[i])
            lo, hi = grid[max(i - 1, 0)], grid[min(i + 1, len(grid) - 1)]
        if mine > best + 1e-7 * max(1.0, abs(best)):
            if verbose:
                print("group", g, "v=", v.tolist(), "u=", u.tolist(), "alpha=", a, "M=", M, "objective(library)=", mine, "best found=", best)
            return True
    return False


# ----------------------------------------------------------------------------------------------------------------------


def jobs(tier):
    out = [{"name": "lemmas", "target": "checks.c05:job_lemmas", "kwargs": {}, "timeout": 600}, {"name": "dtype", "target": "checks.c05:job_dtype", "kwargs": {}, "timeout": 120}]
    q = tier == "quick"
    lasso_shapes = [(1, 1), (1, 2), (2, 2)] if q else [(1, 1), (1, 2), (2, 2), (3, 2), (2, 3), (1, 3)]
    for d, h in lasso_shapes:
        out.append({"name": f"lasso/d{d}h{h}", "target": "checks.c05:job_lasso", "kwargs": dict(d=d, h=h, direct=(d == 1 and (h == 1 or (not q and h == 2)))),
                    "timeout": 300 if q else 1800})
    for d in ([2, 3] if q else [2, 3]):
        for part in partitions(range(d)):
            if all(len(g) == 1 for g in part) and d == 3 and q:
                continue
            for h in ([1] if q else [1, 2]):
                out.append({"name": f"lasso/groups/d{d}h{h}/{part}", "target": "checks.c05:job_lasso",
                            "kwargs": dict(d=d, h=h, groups=part), "timeout": 300 if q else 1800})
    # group lists as check_groups produces them from partial lists (declared groups first, singletons appended) and with
    # indices in arbitrary order inside a group: the concatenated order is then not an involution
    for part in [[[1, 2], [0]], [[2, 0], [1]]] + ([] if q else [[[2, 3], [0], [1]], [[3, 1], [2, 0]]]):
        dd = sum(len(g) for g in part)
        out.append({"name": f"lasso/groups-unordered/d{dd}h1/{part}", "target": "checks.c05:job_lasso", "kwargs": dict(d=dd, h=1, groups=part), "timeout": 300 if q else 1800})
    hier = [(1, 1, 1), (1, 1, 2), (1, 2, 1), (2, 1, 1)] if q else [(1, 1, 1), (1, 1, 2), (1, 2, 1), (2, 1, 1), (1, 1, 3), (1, 2, 2), (2, 1, 2)]
    for d, k, h in hier:
        out.append({"name": f"hier/d{d}k{k}h{h}", "target": "checks.c05:job_hier", "kwargs": dict(d=d, k=k, h=h), "timeout": 400 if q else 3000})
    if not q:
        out.append({"name": "hier-direct/k1h1", "target": "checks.c05:job_hier_direct", "kwargs": dict(k=1, h=1, timeout_q=300.0), "timeout": 3000})
    # differential harness against the reference Hier-Prox: one job per sign pattern of the hidden weights
    import itertools
    refs = [(1, 2, 3, None), (3, 1, 1, [[0, 1, 2]]), (2, 2, 1, [[0, 1]]), (1, 1, 2, None)]
    if not q:
        refs += [(1, 1, 3, None), (2, 2, 1, [[0], [1]]), (2, 1, 2, [[0, 1]]), (3, 2, 1, [[0, 2], [1]]), (1, 3, 2, None)]
    for d, k, h, grp in refs:
        for sg in itertools.product((1, -1), repeat=d * h):
            # quick: two concrete hierarchy constants (M < 1 < M'); thorough: M symbolic
            for Mv in (["1/2", "3"] if q else [None]):
                out.append({"name": f"hier-ref/d{d}k{k}h{h}/{grp}/signs{''.join('+' if x > 0 else '-' for x in sg)}" + (f"/M{Mv}" if Mv else ""), "target": "checks.c05:job_hier_ref",
                            "kwargs": dict(d=d, k=k, h=h, groups=grp, signs=sg, M_value=Mv, timeout_q=20.0 if q else 120.0), "timeout": 400 if q else 3000})
    out.append({"name": "hier/M0/d1k1h2", "target": "checks.c05:job_hier", "kwargs": dict(d=1, k=1, h=2, m_zero=True), "timeout": 300})
    for part in ([[[0], [1]]] if q else list(partitions(range(2))) + [p for p in partitions(range(3))]):
        dd = sum(len(g) for g in part)
        out.append({"name": f"hier/groups/d{dd}k1h1/{part}", "target": "checks.c05:job_hier",
                    "kwargs": dict(d=dd, k=1, h=1, groups=part), "timeout": 400 if q else 3000})
    return out


def run(tier, seed, only=None, nproc=None):
    t0 = time.time()
    js = [j for j in jobs(tier) if not only or only in j["name"]]
    pairs = runner.run_jobs(js, nproc=nproc, seed=seed)
    return runner.finish(
        PROP, tier, seed, pairs, t0,
        assumptions=["exact real arithmetic", "alpha >= 0, M >= 0 symbolic; weights arbitrary reals (zero rows and ties included for the group lasso)",
                     "hierarchical operator: rows/groups with non-zero skip weights (the property's scope)",
                     "optimality of the hierarchical prox is established through the certificate A/A2/A3 plus solver-proved lemmas L0-L3,T2 (T2 for h<=3, L2 for k=2)"],
        bounds={"tier": tier, "jobs": [j["name"] for j in js]})
