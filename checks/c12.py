"""C12 -- fitting is reproducible, history-independent and free of side effects   (claimed in part, see DESIGN)

 taint   : non-interference.  Before a one-epoch SYMBOLIC fit every attribute an earlier call could have left behind (weights,
           cached activations, optimiser, labels, stored data, groups, batch indices ...) is set to fresh "stale" symbols /
           sentinel objects.  After fit no fitted attribute, no direction handed to the optimiser and no batch may mention a
           stale symbol or a sentinel (syntactic dependency analysis of the result terms).
 history : fit after every sequence of <= 2 earlier public calls (fit on other data, predict, predict_proba, score,
           set_params round trip) yields, term for term, the fit of a fresh instance (RNG stub = function of random_state)
 effects : fit / predict / predict_proba / score leave the caller's X and affinity arrays and the constructor
           hyper-parameters untouched (element identity before / after)
 params  : get_params / set_params / clone round-trip every hyper-parameter of all 18 estimators (distinct sentinels)
 kauri   : Kauri.fit after fit on other data / predict / score gives the same tree (translated split search, concrete data)
Outside the claim: bit-for-bit float reproducibility and NumPy's RNG.
"""
from __future__ import annotations

import itertools
import time

import numpy as np

from symx import core, harness, loader, runner
from symx.core import to_rat, Rat
from symx.explore import Explorer, PathError
from . import common_models as cm

PROP = "C12"
ALL18 = ["LinearModel", "LinearMMD", "LinearWasserstein", "RIM", "KernelRIM", "MLPModel", "MLPMMD", "MLPWasserstein", "SparseLinearModel", "SparseLinearMMD",
         "SparseLinearMI", "SparseMLPModel", "SparseMLPMMD", "CategoricalModel", "CategoricalMMD", "CategoricalWasserstein", "Douglas", "Kauri"]


def _new():
    return {"paths": 0, "queries": 0, "obligations": [], "violations": [], "validated": 0, "witnesses": 0, "samples": []}


class Sentinel:
    def __init__(self, name):
        self.name = name

    def __repr__(self):
        return f"<stale {self.name}>"


def mentions_stale(obj, depth=0):
    """does a value depend (syntactically) on a stale symbol / is it a sentinel?"""
    if isinstance(obj, Sentinel):
        return True
    if isinstance(obj, Rat):
        for fid in core.reachable_factors([f for f, _ in obj.f]):
            k = core.CTX.factors[fid]
            if k[0] == "v" and k[1].startswith("stale"):
                return True
            if k[0] == "uf" and "stale" in repr(k):
                return True
        return False
    if isinstance(obj, np.ndarray):
        if obj.dtype == object:
            return any(mentions_stale(x, depth + 1) for x in obj.reshape(-1))
        return False
    if isinstance(obj, (list, tuple)) and depth < 4:
        return any(mentions_stale(x, depth + 1) for x in obj)
    return False


def pollute(env):
    """leave behind what ANY earlier call could have left"""
    mdl = env.mdl
    dm = env.dm
    fam = env.family
    n_other = dm["n"] + 1

    def stale(name, shape):
        a = np.empty(shape, dtype=object)
        for idx in np.ndindex(*shape):
            a[idx] = core.var(f"stale_{name}_" + "_".join(map(str, idx)))
        return a
    b = cm.BASE[fam]
    if b in ("linear", "kernelrim"):
        mdl.W_, mdl.b_ = stale("W", (dm["d"], dm["K"])), stale("b", (1, dm["K"]))
    if b in ("mlp", "smlp"):
        mdl.W1_, mdl.b1_, mdl.W2_, mdl.b2_ = stale("W1", (dm["d"], dm["h"])), stale("b1", (1, dm["h"])), stale("W2", (dm["h"], dm["K"])), stale("b2", (1, dm["K"]))
        mdl.H_ = stale("H", (n_other, dm["h"]))
    if b == "smlp":
        mdl.W_skip_ = stale("Ws", (dm["d"], dm["K"]))
    if b == "cat":
        mdl.logits_ = stale("L", (n_other, dm["K"]))
    if b == "douglas":
        mdl.cut_points_list_ = [(i, stale(f"c{i}", (dm["cuts"],))) for i in range(dm["d"])]
        mdl.leaf_scores_ = stale("ls", ((dm["cuts"] + 1) ** dm["d"], dm["K"]))
        mdl._leaf = stale("leaf", (n_other, (dm["cuts"] + 1) ** dm["d"]))
        mdl._all_binnings = [stale("bin", (n_other, dm["cuts"] + 1))]
        mdl._all_orders = [np.arange(dm["cuts"])]
    if b == "kernelrim":
        mdl.input_data_ = stale("Xold", (n_other, 1))
        mdl._training_kernel = stale("Kold", (n_other, n_other))
    if "Sparse" in fam:
        mdl.groups_ = [[0]] if dm["d"] > 1 else None
        mdl.groups_ = Sentinel("groups_") if False else mdl.groups_
    mdl.optimiser_ = Sentinel("optimiser_")
    mdl.labels_ = np.array([Sentinel("labels_")] * n_other, dtype=object)
    mdl.n_iter_ = Sentinel("n_iter_")
    mdl.n_features_in_ = 99
    if hasattr(mdl._batchify, "indices"):
        mdl._batchify.indices = [Sentinel("index")]


def fitted_state(env):
    """everything observable after fit: fitted attributes + what each step handed to the optimiser"""
    out = {}
    for k, v in vars(env.mdl).items():
        if k.endswith("_") and not k.startswith("__"):
            out[k] = v
    out["steps"] = [(s["rows"], [g for g in s["grads"]], [w for _, w in s["params"]]) for s in env.steps]
    return out


def _keys(obj, depth=0):
    if isinstance(obj, Rat):
        return obj.key()
    if isinstance(obj, np.ndarray):
        return ("arr", obj.shape, tuple(_keys(x, depth + 1) for x in obj.reshape(-1))) if obj.dtype == object else ("arr", obj.shape, tuple(np.asarray(obj).reshape(-1).tolist()))
    if isinstance(obj, (list, tuple)):
        return tuple(_keys(x, depth + 1) for x in obj)
    if isinstance(obj, (int, float, str, bool, type(None), np.integer, np.floating)):
        return obj
    if isinstance(obj, dict):
        return tuple(sorted((k, _keys(v, depth + 1)) for k, v in obj.items()))
    return ("obj", type(obj).__name__)


def job_taint(family, shape, gemini, batch_size):
    loader.install()
    res = _new()
    box = {}

    def setup():
        core.CTX.merge_sign = True
        env = cm.FitEnv(family, shape, gemini=gemini, batch_size=batch_size, max_iter=1, stop_after_training=False, gemini_stub=True, final_infer="concrete")
        pollute(env)
        box["env"] = env
        return env

    ex = Explorer(max_paths=50)
    seen = set()
    for out, pc, trace in ex.run(lambda env: env.run_fit(), setup):
        res["paths"] += 1
        tag = f"taint/{family}/{cm.shape_str(shape)}/{gemini}/bs{batch_size}"
        if isinstance(out, PathError):
            res["obligations"].append({"name": tag + "/path-error", "verdict": "inconclusive", "how": repr(out)[:300]})
            break
        env = out
        st = fitted_state(env)
        for name, val in st.items():
            bad = mentions_stale(val)
            res["obligations"].append({"name": f"{tag}/{name} does not depend on state left by earlier calls", "verdict": "sat" if bad else "unsat", "how": "term-dependency"})
            sig = f"{PROP}:{family}:stale-state:{name}"
            if bad and sig not in seen:
                rep = {"kind": "history", "family": family, "shape": list(shape), "gemini": gemini, "batch_size": batch_size}
                if replay(rep):
                    seen.add(sig)
                    res["violations"].append({"signature": sig, "what": f"{family}.fit: {name} depends on state left behind by an earlier call", "replay": rep})
                else:
                    res["obligations"][-1]["verdict"] = "inconclusive"
        res["samples"].append({"config": tag, "attributes": sorted(k for k in st if k != "steps"), "steps": len(env.steps)})
        break
    return res


PRIOR = ["fit-other", "fit-same", "predict", "predict_proba", "score", "set_params"]


def job_history(family, shape, gemini, batch_size, length):
    loader.install()
    res = _new()
    seen = set()
    for seq in itertools.product(PRIOR, repeat=length):
        fitted, valid = False, True
        for s_ in seq:
            if s_ in ("fit-other", "fit-same"):
                fitted = True
            elif s_ in ("predict", "predict_proba", "score") and not fitted:
                valid = False
        if not valid:
            continue      # predicting / scoring needs a fitted model
        box = {}

        def setup():
            core.CTX.merge_sign = True
            return None

        def body(_):
            fresh = cm.FitEnv(family, shape, gemini=gemini, batch_size=batch_size, max_iter=1, stop_after_training=False, gemini_stub=True, final_infer="concrete")
            fresh.run_fit()
            ref = fitted_state(fresh)
            env = cm.FitEnv(family, shape, gemini=gemini, batch_size=batch_size, max_iter=1, stop_after_training=False, gemini_stub=True, final_infer="concrete")
            X_other = harness.free_matrix(env.n + 1, env.X.shape[1], "o")
            hp0 = dict(env.mdl.get_params())
            for step in seq:
                if step == "fit-other":
                    X_keep, env.X = env.X, X_other
                    n_keep, env.n = env.n, len(X_other)
                    env.steps.clear(); env.gem_calls.clear(); env.infer_calls.clear()
                    env.run_fit()
                    env.X, env.n = X_keep, n_keep
                elif step == "fit-same":
                    # the same data (same number of samples) fitted before: buffers sized by n survive into the next fit
                    env.steps.clear(); env.gem_calls.clear(); env.infer_calls.clear()
                    env.run_fit()
                elif step == "predict":
                    env.final_infer = "real-all"
                    try:
                        env.mdl.predict_proba(X_other)
                    finally:
                        env.final_infer = "concrete"
                elif step == "predict_proba":
                    env.final_infer = "real-all"
                    try:
                        env.mdl.predict_proba(env.X)
                    finally:
                        env.final_infer = "concrete"
                elif step == "score":
                    env.final_infer = "real-all"
                    try:
                        env.mdl.score(env.X)
                    finally:
                        env.final_infer = "concrete"
                elif step == "set_params":
                    env.mdl.set_params(**{k: v for k, v in env.mdl.get_params().items()})
            env.steps.clear(); env.gem_calls.clear(); env.infer_calls.clear()
            env.affinities.clear()
            env.run_fit()
            return ref, fitted_state(env), hp0, dict(env.mdl.get_params())

        ex = Explorer(max_paths=30)
        tag = f"history/{family}/{cm.shape_str(shape)}/{gemini}/bs{batch_size}/after[{','.join(seq)}]"
        for out, pc, trace in ex.run(body, setup):
            res["paths"] += 1
            if isinstance(out, PathError):
                res["obligations"].append({"name": tag + "/path-error", "verdict": "inconclusive", "how": repr(out)[:300]})
                break
            ref, got, hp0, hp1 = out
            diff = [k for k in ref if _keys(ref[k]) != _keys(got.get(k))] + [k for k in got if k not in ref]
            ok = not diff
            res["obligations"].append({"name": tag + "/same model as a fresh instance", "verdict": "unsat" if ok else "sat", "how": "term-identity", "differs": diff[:4]})
            okp = all(hp0[k] is hp1[k] or hp0[k] == hp1[k] for k in hp0)
            res["obligations"].append({"name": tag + "/constructor hyper-parameters unchanged", "verdict": "unsat" if okp else "sat", "how": "identity"})
            for okk, short, what in ((ok, "history-dependent", f"fit after [{', '.join(seq)}] differs from the fit of a fresh instance ({diff[:3]})"), (okp, "hyperparams-modified", "fit modifies constructor hyper-parameters")):
                sig = f"{PROP}:{family}:{short}"
                if not okk and sig not in seen:
                    rep = {"kind": "history", "family": family, "shape": list(shape), "gemini": gemini, "batch_size": batch_size, "seq": list(seq)}
                    if replay(rep):
                        seen.add(sig)
                        res["violations"].append({"signature": sig, "what": f"{family}: {what}", "replay": rep})
                    else:
                        res["obligations"][-1]["verdict"] = "inconclusive"
            break
    res["samples"].append({"family": family, "sequences": length})
    return res


def job_history_param(family, shape, hyper_a, hyper_b, edit_data=False):
    """fit, then change hyper-parameters with set_params (or let the caller edit X in place), then fit the SAME array object again:
    the result must be, term for term, the fit of a fresh instance constructed with the new hyper-parameters / on the new data"""
    loader.install()
    res = _new()

    def setup():
        core.CTX.merge_sign = True
        return None

    def body(_):
        kw = dict(gemini="mi", batch_size=None, max_iter=1, stop_after_training=False, gemini_stub=True, final_infer="concrete")
        fresh = cm.FitEnv(family, shape, hyper=dict(hyper_b), **kw)
        if edit_data:
            for i in range(fresh.X.shape[0]):
                fresh.X[i, 0] = core.var(f"edited_{i}")
        fresh.run_fit()
        ref = fitted_state(fresh)
        env = cm.FitEnv(family, shape, hyper=dict(hyper_a), **kw)
        env.run_fit()
        if edit_data:
            for i in range(env.X.shape[0]):
                env.X[i, 0] = core.var(f"edited_{i}")          # the caller edits the array in place, same object
        env.mdl.set_params(**hyper_b)
        env.steps.clear(); env.gem_calls.clear(); env.infer_calls.clear()
        env.affinities.clear()
        env.run_fit()
        return ref, fitted_state(env)

    ex = Explorer(max_paths=20)
    tag = f"history-param/{family}/{hyper_a}->{hyper_b}{'/edit-X' if edit_data else ''}"
    for out, pc, trace in ex.run(body, setup):
        res["paths"] += 1
        if isinstance(out, PathError):
            res["obligations"].append({"name": tag + "/path-error", "verdict": "inconclusive", "how": repr(out)[:300]})
            break
        ref, got = out
        diff = [k for k in ref if _keys(ref[k]) != _keys(got.get(k))]
        ok = not diff
        res["obligations"].append({"name": tag + "/second fit on the same array object == fresh instance", "verdict": "unsat" if ok else "sat", "how": "term-identity", "differs": diff[:4]})
        if not ok:
            rep = {"kind": "history-param", "family": family, "shape": list(shape), "hyper_a": hyper_a, "hyper_b": hyper_b, "edit_data": edit_data}
            if replay(rep):
                res["violations"].append({"signature": f"{PROP}:{family}:stale-after-{'data-edit' if edit_data else 'set_params'}",
                                          "what": f"{family}: fit after {'an in-place edit of X' if edit_data else 'set_params(' + str(hyper_b) + ')'} on the same array object reuses state of the first fit ({diff[:3]})", "replay": rep})
            else:
                res["obligations"][-1]["verdict"] = "inconclusive"
        res["samples"].append({"config": tag})
        break
    return res


def job_path_effects(family, shape, batch_size=None, outer=2):
    """the regularisation path is a training call like fit: it must hand the constructor hyper-parameters back as it found them
    (so that a second path on the same object starts from the same penalty)"""
    loader.install()
    res = _new()

    def setup():
        core.CTX.merge_sign = True
        return None

    def body(_):
        env = cm.PathEnv(family, shape, outer=outer, gemini="mmd_ova", batch_size=batch_size, max_iter=1, gemini_stub=True)
        hp0 = dict(env.mdl.get_params())
        env.run_path()
        return hp0, dict(env.mdl.get_params())

    ex = Explorer(max_paths=6)
    tag = f"path-effects/{family}/{cm.shape_str(shape)}/bs{batch_size}/outer{outer}"
    for out, pc, trace in ex.run(body, setup):
        res["paths"] += 1
        if isinstance(out, PathError):
            res["obligations"].append({"name": tag + "/path-error", "verdict": "inconclusive", "how": repr(out)[:300]})
            break
        hp0, hp1 = out
        changed = [k for k in hp0 if not (hp0[k] is hp1[k] or _keys(hp0[k]) == _keys(hp1[k]))]
        ok = not changed
        res["obligations"].append({"name": tag + "/constructor hyper-parameters unchanged by path()", "verdict": "unsat" if ok else "sat", "how": "identity / term-identity", "changed": changed})
        if not ok:
            rep = {"kind": "path-effects", "family": family, "shape": list(shape), "batch_size": batch_size}
            if replay(rep):
                res["violations"].append({"signature": f"{PROP}:{family}:path-modifies-hyperparams", "what": f"{family}.path() leaves the constructor hyper-parameter(s) {changed} modified: a second path on the same object differs from the first", "replay": rep})
            else:
                res["obligations"][-1]["verdict"] = "inconclusive"
        break
    res["samples"].append({"config": tag})
    return res


NAMED_AFFINITIES = [("LinearMMD", "kernel", k) for k in ("linear", "rbf", "poly", "polynomial", "sigmoid", "laplacian", "cosine", "additive_chi2", "chi2")] + \
                   [("LinearWasserstein", "metric", m) for m in ("euclidean", "sqeuclidean", "cosine", "manhattan", "chebyshev", "cityblock", "l1", "l2")] + \
                   [("KernelRIM", "base_kernel", k) for k in ("linear", "rbf", "cosine", "laplacian")] + \
                   [("LinearMMD", "kernel+params", (k, pr)) for k, pr in (("poly", {"degree": 2}), ("rbf", {}), ("sigmoid", {"coef0": 1.0}), ("laplacian", {}), ("polynomial", {"coef0": 0}))] + \
                   [(c, "precomputed", ovo) for c in ("LinearWasserstein", "LinearMMD", "CategoricalWasserstein", "CategoricalMMD") for ovo in (False, True)]


def job_effects_named():
    """CONCRETE float64 witness (the symbolic effects jobs stub scikit-learn's pairwise functions): with every NAMED kernel / metric,
    fit, fit_predict, predict_proba and score leave the caller's float array bit-for-bit unchanged"""
    res = _new()
    for cname, attr, name in NAMED_AFFINITIES:
        res["paths"] += 1
        rep_ = {"kind": "effects-named", "cls": cname, "attr": attr, "name": name}
        bad = replay(rep_)
        res["obligations"].append({"name": f"effects-named/{cname}({attr}={name!r}): caller's X untouched by fit / predict_proba / score", "verdict": "sat" if bad else "unsat", "how": "concrete float64 run"})
        if bad:
            res["violations"].append({"signature": f"{PROP}:{cname}:modifies-input:{name}", "what": f"{cname}({attr}={name!r}) modifies the caller's data array in place", "replay": rep_})
    res["samples"].append({"cases": len(NAMED_AFFINITIES)})
    return res


def job_effects(family, shape, gemini, batch_size, hyper=None):
    loader.install()
    res = _new()
    box = {}

    def setup():
        core.CTX.merge_sign = True
        return None

    def body(_):
        import copy
        env = cm.FitEnv(family, shape, gemini=gemini, batch_size=batch_size, max_iter=1, stop_after_training=False, gemini_stub=True, final_infer="concrete", hyper=copy.deepcopy(hyper))
        X0 = np.array(env.X, dtype=object, copy=True)
        ids0 = [id(x) for x in env.X.reshape(-1)]
        A = None
        if gemini in ("mmd_ova", "wasserstein_ova") and cm.BASE[family] not in ("kernelrim",):
            gm = loader.load("gemini")
            A = harness.symmetric_matrix(env.n, "pre")
            inst = gm.MMDGEMINI(kernel="precomputed") if gemini == "mmd_ova" else gm.WassersteinGEMINI(metric="precomputed")
            env.mdl.gemini = inst
            env.y = A
        A0 = None if A is None else np.array(A, dtype=object, copy=True)
        hp0 = {k: (copy.deepcopy(v) if isinstance(v, (list, dict)) else v) for k, v in env.mdl.get_params().items()}     # deep: in-place edits of a list must show
        log = []

        def same():
            okx = all(to_rat(a).key() == to_rat(b).key() for a, b in zip(env.X.reshape(-1), X0.reshape(-1))) and env.X.shape == X0.shape
            oka = A is None or (A.shape == A0.shape and all(to_rat(a).key() == to_rat(b).key() for a, b in zip(A.reshape(-1), A0.reshape(-1))))
            return okx, oka
        env.run_fit()
        log.append(("fit",) + same())
        env.final_infer = "real-all"
        env.mdl.predict_proba(env.X)
        log.append(("predict_proba",) + same())
        env.mdl.score(env.X, env.y)
        log.append(("score",) + same())
        hp1 = dict(env.mdl.get_params())
        return log, hp0, hp1

    ex = Explorer(max_paths=20)
    for out, pc, trace in ex.run(body, setup):
        res["paths"] += 1
        tag = f"effects/{family}/{cm.shape_str(shape)}/{gemini}/bs{batch_size}{'/' + str(hyper) if hyper else ''}"
        if isinstance(out, PathError):
            res["obligations"].append({"name": tag + "/path-error", "verdict": "inconclusive", "how": repr(out)[:300]})
            break
        log, hp0, hp1 = out
        for call, okx, oka in log:
            res["obligations"].append({"name": f"{tag}/{call} leaves the caller's X untouched", "verdict": "unsat" if okx else "sat", "how": "term-identity"})
            res["obligations"].append({"name": f"{tag}/{call} leaves the caller's affinity untouched", "verdict": "unsat" if oka else "sat", "how": "term-identity"})
            if not (okx and oka):
                rep = {"kind": "effects", "family": family, "shape": list(shape), "gemini": gemini, "batch_size": batch_size}
                if replay(rep):
                    res["violations"].append({"signature": f"{PROP}:{family}:modifies-input:{call}", "what": f"{family}.{call} modifies the caller's data or affinity array", "replay": rep})
                else:
                    res["obligations"][-1]["verdict"] = "inconclusive"
        okp = set(hp0) == set(hp1) and all((hp0[k] == hp1[k]) if isinstance(hp0[k], (list, dict)) else (hp0[k] is hp1[k] or _keys(hp0[k]) == _keys(hp1[k])) for k in hp0)
        res["obligations"].append({"name": f"{tag}/constructor hyper-parameters unchanged by fit/predict/score", "verdict": "unsat" if okp else "sat", "how": "identity"})
        if not okp and not replay({"kind": "effects", "family": family, "shape": list(shape), "gemini": gemini, "batch_size": batch_size, "hyper": hyper}):
            res["obligations"][-1]["verdict"] = "inconclusive"
        elif not okp:
            res["violations"].append({"signature": f"{PROP}:{family}:hyperparams-modified", "what": f"{family}: fit modifies constructor hyper-parameters", "replay": {"kind": "effects", "family": family, "shape": list(shape), "gemini": gemini, "batch_size": batch_size, "hyper": hyper}})
        break
    return res


def _class_of(name, symbolic=False):
    if name == "Kauri":
        return (loader.load("tree.kauri") if symbolic else loader.real("tree.kauri")).Kauri
    return cm.get_class(name, symbolic=symbolic)[0]


def job_params():
    res = _new()
    from sklearn.base import clone
    for name in ALL18:
        cls = _class_of(name)
        est = cls()
        names = sorted(est.get_params(deep=False))
        sent = {k: Sentinel(k) for k in names}
        ok_set = True
        try:
            est.set_params(**sent)
            got = est.get_params(deep=False)
            ok_set = set(got) == set(names) and all(got[k] is sent[k] for k in names) and all(getattr(est, k) is sent[k] for k in names)
        except Exception:
            ok_set = False
        res["obligations"].append({"name": f"params/{name}: set_params/get_params round-trip every hyper-parameter ({len(names)})", "verdict": "unsat" if ok_set else "sat", "how": "introspection"})
        ok_clone = True
        try:
            d = cls().get_params(deep=False)
            # clone needs clonable values: use distinct but plain values where possible
            e2 = cls()
            vals = {}
            for i, k in enumerate(names):
                v = d[k]
                vals[k] = v
            e2.set_params(**vals)
            c = clone(e2)
            cp = c.get_params(deep=False)
            ok_clone = type(c) is cls and set(cp) == set(names) and all((cp[k] is vals[k]) or (cp[k] == vals[k]) for k in names) and not any(k.endswith("_") for k in vars(c))
        except Exception:
            ok_clone = False
        res["obligations"].append({"name": f"params/{name}: clone copies every hyper-parameter and nothing fitted", "verdict": "unsat" if ok_clone else "sat", "how": "introspection"})
        import inspect
        init_names = sorted(p for p in inspect.signature(cls.__init__).parameters if p != "self")
        ok_names = init_names == names
        res["obligations"].append({"name": f"params/{name}: get_params lists exactly the constructor arguments", "verdict": "unsat" if ok_names else "sat", "how": "introspection"})
        for ok, short in ((ok_set, "set-get"), (ok_clone, "clone"), (ok_names, "names")):
            if not ok:
                res["violations"].append({"signature": f"{PROP}:{name}:params-{short}", "what": f"{name}: hyper-parameter round trip broken ({short})", "replay": {"kind": "params", "name": name, "short": short}})
    res["paths"] = len(ALL18)
    res["samples"].append({"estimators": ALL18})
    return res


def job_kauri():
    res = _new()
    km = loader.real("tree.kauri")
    rng = np.random.RandomState(0)
    X = rng.normal(size=(12, 2))
    X2 = rng.normal(size=(9, 2)) * 3

    def tree_sig(k):
        t = k.tree_
        return (tuple(t.children_left), tuple(t.children_right), tuple(t.features), tuple(None if x is None else round(float(x), 12) for x in t.thresholds), tuple(t.target), tuple(k.labels_.tolist()))
    for hp in (dict(max_clusters=3, random_state=0), dict(max_clusters=2, max_depth=2, random_state=1), dict(max_clusters=3, max_features=1, random_state=3)):
        ref = tree_sig(km.Kauri(**hp).fit(X))
        for seq in itertools.product(["fit-other", "predict", "score", "refit"], repeat=2):
            k = km.Kauri(**hp)
            k.fit(X)
            Xc = X.copy()
            for s in seq:
                if s == "fit-other":
                    k.fit(X2)
                elif s == "predict":
                    k.predict(X2 if k.tree_ is not None else X)
                elif s == "score":
                    k.score(X2)
                elif s == "refit":
                    k.fit(X)
            k.fit(X)
            ok = tree_sig(k) == ref and np.array_equal(X, Xc)
            res["obligations"].append({"name": f"kauri/{hp}/after {seq}: same tree as a fresh fit, data untouched", "verdict": "unsat" if ok else "sat", "how": "concrete"})
            if not ok and not res["violations"]:
                res["violations"].append({"signature": f"{PROP}:Kauri:history-dependent", "what": f"Kauri.fit after {seq} differs from a fresh fit", "replay": {"kind": "kauri"}})
            res["paths"] += 1
    # same-shape data with the same grand sum (integer-valued rows in another order, rows exchanging mass): whatever was computed for the
    # training data must not be taken for theirs -- refit == fresh fit, score == kernel objective of the predicted partition
    from sklearn.metrics import pairwise_kernels
    Xi = rng.randint(-4, 5, size=(14, 2)).astype(float)
    variants = [Xi[rng.permutation(len(Xi))], Xi[::-1].copy(), Xi + np.where(np.arange(len(Xi))[:, None] % 2 == 0, 1.0, -1.0)]
    for kern in ("linear", "rbf"):
        for vi, Xv in enumerate(variants):
            k = km.Kauri(max_clusters=3, kernel=kern, random_state=0).fit(Xi)
            pred = k.predict(Xv)
            Kv = pairwise_kernels(Xv, metric=kern)
            ref_score = sum(Kv[np.ix_(pred == c, pred == c)].sum() / max(1, int((pred == c).sum())) for c in np.unique(pred))
            ok_s = abs(float(k.score(Xv)) - ref_score) <= 1e-8 * max(1.0, abs(ref_score))
            k.fit(Xv)
            ok_f = tree_sig(k) == tree_sig(km.Kauri(max_clusters=3, kernel=kern, random_state=0).fit(Xv))
            res["paths"] += 1
            res["obligations"].append({"name": f"kauri/{kern}/same-shape same-sum data #{vi}: score == objective of its own partition, refit == fresh fit", "verdict": "unsat" if (ok_s and ok_f) else "sat", "how": "concrete"})
            if not (ok_s and ok_f) and not any(v["signature"].endswith("stale-kernel") for v in res["violations"]):
                res["violations"].append({"signature": f"{PROP}:Kauri:stale-kernel", "what": f"Kauri(kernel={kern!r}): after fit(X), score / fit on other data of the same shape and sum uses something computed for X", "replay": {"kind": "kauri"}})
    res["samples"].append({"sequences": 16, "configs": 3})
    return res


def replay(rep, verbose=False):
    """REAL estimators, real RNG with an integer seed: fit after a history vs fresh fit; inputs untouched"""
    kind = rep["kind"]
    if kind == "params":
        return any(v["replay"].get("name") == rep["name"] and v["replay"].get("short") == rep["short"] for v in job_params()["violations"])
    if kind == "kauri":
        return bool(job_kauri()["violations"])
    if kind == "effects-named":
        lin = loader.real("linear._linear_geminis")
        cls_ = getattr(lin, rep["cls"], None)
        rng = np.random.RandomState(0)
        rs = np.random.RandomState(3)
        Xn = np.abs(rs.normal(size=(14, 3))) + 0.1          # positive entries: the chi2 kernels need them
        pristine = Xn.copy()
        if rep["attr"] == "kernel+params":
            # a parameter dictionary WITHOUT gamma: the caller's dictionary (a constructor hyper-parameter) must come back as it was given
            import copy
            kname, kparams = rep["name"]
            given = copy.deepcopy(kparams)
            m = cls_(n_clusters=2, max_iter=2, random_state=0, kernel=kname, kernel_params=given)
            m.fit(Xn)
            m.score(Xn)
            bad = given != kparams or m.get_params()["kernel_params"] != kparams
            if verbose:
                print(rep["cls"], kname, "kernel_params given", kparams, "after fit / score", given)
            return bad
        if rep["attr"] == "precomputed":
            # the caller's precomputed matrix (float64, C-contiguous, NON-ZERO diagonal) through fit, score and fit_predict
            npm = loader.real("nonparametric._categorical_models")
            cls_ = getattr(lin, rep["cls"], None) or getattr(npm, rep["cls"])
            G = rs.normal(size=(14, 4))
            D = np.ascontiguousarray(np.abs(G @ G.T) + 0.7 * np.eye(14))
            pristine_D = D.copy()
            key = "metric" if "Wasserstein" in rep["cls"] else "kernel"
            m = cls_(n_clusters=2, max_iter=2, random_state=0, ovo=rep["name"], **{key: "precomputed"})
            m.fit(Xn, D)
            m.score(Xn, D)
            m.fit_predict(Xn, D)
            if verbose:
                print(rep["cls"], "ovo", rep["name"], "max |D - pristine| =", float(np.abs(D - pristine_D).max()))
            return not (np.array_equal(D, pristine_D) and np.array_equal(Xn, pristine))
        try:
            m = cls_(n_clusters=2, max_iter=2, random_state=0, **{rep["attr"]: rep["name"]})
            m.fit(Xn)
            ok = np.array_equal(Xn, pristine)
            m.predict_proba(Xn)
            m.score(Xn)
            m.fit_predict(Xn)
            ok = ok and np.array_equal(Xn, pristine)
        except Exception as e:
            if verbose:
                print("raised", type(e).__name__, e)
            return False      # whether this name is accepted at all is not this clause's subject
        if verbose:
            print(rep["cls"], rep["name"], "max |X - pristine| =", float(np.abs(Xn - pristine).max()))
        return not ok
    family, shape = rep["family"], tuple(rep["shape"])
    cls, mod = cm.get_class(family, symbolic=False)
    dm = cm.dims(family, shape)
    rng = np.random.RandomState(0)
    n, d = max(dm["n"], 6), max(dm["d"], 2) if cm.BASE[family] != "kernelrim" else 2
    X = rng.normal(size=(n, d))
    if kind == "path-effects":
        import warnings
        Xp = np.vstack([rng.normal(size=(12, 3)) + [3, 0, 0], rng.normal(size=(12, 3)) - [3, 0, 0]])
        kw = dict(n_clusters=2, max_iter=5, random_state=3, alpha=0.05, batch_size=rep.get("batch_size"))
        if cm.BASE[family] == "smlp":
            kw["n_hidden_dim"] = 3
        if family in ("SparseLinearModel", "SparseMLPModel"):
            kw["gemini"] = "mmd_ova"
        with warnings.catch_warnings():
            warnings.simplefilter("ignore")
            m = cls(**kw)
            before = dict(m.get_params())
            r1 = m.path(Xp, min_features=1)
            after = dict(m.get_params())
            r2 = m.path(Xp, min_features=1)
        bad = any(before[k] != after[k] for k in before if isinstance(before[k], (int, float, str, bool, type(None)))) or list(r1[3]) != list(r2[3])
        if verbose:
            print("alpha before", before["alpha"], "after path", after["alpha"], "; alphas of a second path on the same object start at", r2[3][:1], "instead of", r1[3][:1])
        return bad
    if kind == "history-param":
        import copy
        base = dict(n_clusters=2, max_iter=3, random_state=7)
        if cm.BASE[family] in ("mlp", "smlp"):
            base["n_hidden_dim"] = 3
        Xe = X.copy()
        if rep.get("edit_data"):
            Xe[:, 0] = rng.normal(size=n) * 4
        ref = cls(**base, **copy.deepcopy(rep["hyper_b"])).fit(Xe.copy())
        m = cls(**base, **copy.deepcopy(rep["hyper_a"]))
        Xobj = X.copy()
        m.fit(Xobj)
        if rep.get("edit_data"):
            Xobj[:, 0] = Xe[:, 0]
        m.set_params(**copy.deepcopy(rep["hyper_b"]))
        m.fit(Xobj)
        bad = any(not np.allclose(a, b, rtol=1e-10, atol=1e-12) for a, b in zip(m._get_weights(), ref._get_weights())) or not np.array_equal(m.labels_, ref.labels_)
        if verbose:
            print("second fit on the same array object vs fresh instance:", "DIFFERS" if bad else "same")
        return bad
    if kind == "effects" and rep.get("hyper"):
        import copy
        kw = dict(n_clusters=2, max_iter=2, random_state=0, **copy.deepcopy(rep["hyper"]))
        if cm.BASE[family] in ("mlp", "smlp"):
            kw["n_hidden_dim"] = 3
        m = cls(**kw)
        before = copy.deepcopy(m.get_params())
        Xw = rng.normal(size=(8, 3))
        m.fit(Xw)
        after = m.get_params()
        bad = any(before[k] != after[k] for k in before if isinstance(before[k], (list, dict, int, float, str, bool, type(None))))
        if verbose:
            print("hyper-parameters before", {k: before[k] for k in rep["hyper"]}, "after fit", {k: after[k] for k in rep["hyper"]})
        return bad
    Xo = rng.normal(size=(n + 3, d)) * 2
    kw = dict(n_clusters=2, max_iter=3, random_state=7)
    if cm.BASE[family] != "cat":
        bs = rep.get("batch_size")
        if bs is not None and bs > dm["n"]:
            bs = n + (bs - dm["n"])       # the configuration "batch larger than the data" is kept for the replay's larger dataset
        kw["batch_size"] = bs
    if cm.BASE[family] in ("mlp", "smlp"):
        kw["n_hidden_dim"] = 3
    if family not in ("RIM", "KernelRIM") and "MMD" not in family and "Wasserstein" not in family and family != "SparseLinearMI":
        kw["gemini"] = rep.get("gemini", "mi")

    def weights(m):
        return [np.array(w, copy=True) for w in m._get_weights()] + [np.array(m.labels_)]
    ref = weights(cls(**kw).fit(X))
    seqs = [rep.get("seq")] if rep.get("seq") else [["fit-other"], ["fit-other", "predict"], ["fit-other", "score"], ["set_params"], ["fit-other", "fit-other"], ["fit-same"]]
    for seq in seqs:
        m = cls(**kw)
        Xc = X.copy()
        hp0 = {k: v for k, v in m.get_params().items()}
        fitted = False
        for s in seq:
            if s == "fit-other":
                m.fit(Xo)
                fitted = True
            elif s == "fit-same":
                m.fit(X)
                fitted = True
            elif s in ("predict", "predict_proba") and fitted:
                m.predict_proba(Xo)
            elif s == "score" and fitted:
                m.score(Xo)
            elif s == "set_params":
                m.set_params(**m.get_params())
        m.fit(X)
        got = weights(m)
        bad = len(got) != len(ref) or any(a.shape != b.shape or not np.allclose(a, b, rtol=1e-12, atol=1e-14) for a, b in zip(got, ref))
        bad = bad or not np.array_equal(X, Xc) or any(hp0[k] is not m.get_params()[k] and hp0[k] != m.get_params()[k] for k in hp0)
        if verbose:
            print(family, "after", seq, "->", "DIFFERS from a fresh fit / inputs modified" if bad else "same as fresh fit")
        if bad:
            return True
    return False


def jobs(tier):
    q = tier == "quick"
    out = [{"name": "params", "target": "checks.c12:job_params", "kwargs": {}, "timeout": 200}, {"name": "kauri", "target": "checks.c12:job_kauri", "kwargs": {}, "timeout": 280}]
    fams = [("LinearModel", (3, 2, 2), "mmd_ova", 2), ("RIM", (3, 2, 2), "mi", None), ("KernelRIM", (3, 2), "mi", None), ("MLPModel", (3, 1, 2, 2), "mi", 2),
            ("SparseLinearModel", (3, 2, 2), "mi", None), ("SparseMLPModel", (3, 1, 1, 2), "mmd_ova", None), ("CategoricalModel", (3, 2), "mi", None), ("Douglas", (3, 1, 1, 2), "mi", 2)]
    for fam, sh, gem, bs in fams:
        out.append({"name": f"taint/{fam}", "target": "checks.c12:job_taint", "kwargs": dict(family=fam, shape=sh, gemini=gem, batch_size=bs), "timeout": 280})
        out.append({"name": f"effects/{fam}", "target": "checks.c12:job_effects", "kwargs": dict(family=fam, shape=sh, gemini=gem, batch_size=bs), "timeout": 280})
        out.append({"name": f"history/{fam}/len1", "target": "checks.c12:job_history", "kwargs": dict(family=fam, shape=sh, gemini=gem, batch_size=bs, length=1), "timeout": 280})
        if "Sparse" in fam:
            out.append({"name": f"effects/{fam}/partial-groups", "target": "checks.c12:job_effects",
                        "kwargs": dict(family=fam, shape=((3, 3, 2) if fam == "SparseLinearModel" else (3, 3, 1, 2)), gemini=gem, batch_size=bs, hyper={"groups": [[0, 1]]}), "timeout": 280})
        if not q or fam in ("LinearModel", "KernelRIM", "MLPModel"):
            out.append({"name": f"history/{fam}/len2", "target": "checks.c12:job_history", "kwargs": dict(family=fam, shape=sh, gemini=gem, batch_size=bs, length=2), "timeout": 280 if q else 1800})
    # a batch size larger than the data is legal: it must come out of fit / path as it went in
    for fam, sh, gem in [("LinearModel", (3, 2, 2), "mmd_ova"), ("SparseLinearModel", (3, 2, 2), "mi"), ("Douglas", (3, 1, 1, 2), "mi")] + ([] if q else [("MLPModel", (3, 1, 2, 2), "mi"), ("RIM", (3, 2, 2), "mi")]):
        out.append({"name": f"effects/{fam}/batch-larger-than-n", "target": "checks.c12:job_effects", "kwargs": dict(family=fam, shape=sh, gemini=gem, batch_size=5), "timeout": 280})
        out.append({"name": f"history/{fam}/len1/batch-larger-than-n", "target": "checks.c12:job_history", "kwargs": dict(family=fam, shape=sh, gemini=gem, batch_size=4, length=1), "timeout": 280})
    for fam, sh, bs, outer in [("SparseLinearModel", (3, 2, 2), None, 2), ("SparseMLPModel", (3, 2, 1, 2), None, 0), ("SparseLinearModel", (3, 2, 2), 2, 2), ("SparseLinearModel", (3, 2, 2), None, 0)]:
        # (the sparse MLP with two outer steps forks through the hierarchical prox for minutes: its path wrapper is exercised with no step)
        out.append({"name": f"path-effects/{fam}/bs{bs}/outer{outer}", "target": "checks.c12:job_path_effects", "kwargs": dict(family=fam, shape=sh, batch_size=bs, outer=outer), "timeout": 280})
    out.append({"name": "effects-named", "target": "checks.c12:job_effects_named", "kwargs": {}, "timeout": 280})
    hp = [("KernelRIM", (3, 2), {"base_kernel": "linear"}, {"base_kernel": "rbf", "base_kernel_params": {"gamma": 0.5}}, False),
          ("KernelRIM", (3, 2), {"base_kernel": "rbf", "base_kernel_params": {"gamma": 0.5}}, {"base_kernel": "rbf", "base_kernel_params": {"gamma": 2.0}}, False),
          ("KernelRIM", (3, 2), {"base_kernel": "linear"}, {"base_kernel": "linear"}, True),
          ("LinearMMD", (3, 2, 2), {"kernel": "rbf", "kernel_params": {"gamma": 0.5}}, {"kernel": "rbf", "kernel_params": {"gamma": 2.0}}, False),
          ("LinearModel", (3, 2, 2), {}, {}, True), ("MLPModel", (3, 2, 1, 2), {}, {}, True),
          # hyper-parameters that are switched OFF again: nothing derived from them at the first fit may survive
          ("SparseLinearModel", (3, 3, 2), {"groups": [[0, 1], [2]]}, {"groups": None}, False), ("SparseLinearModel", (3, 3, 2), {"groups": None}, {"groups": [[0, 2], [1]]}, False)]
    for fam, sh, ha, hb, ed in hp:
        out.append({"name": f"history-param/{fam}/{'edit-X' if ed else 'set_params'}/{abs(hash(str(hb))) % 1000}", "target": "checks.c12:job_history_param",
                    "kwargs": dict(family=fam, shape=sh, hyper_a=ha, hyper_b=hb, edit_data=ed), "timeout": 280})
    return out


def run(tier, seed, only=None, nproc=None):
    t0 = time.time()
    js = [j for j in jobs(tier) if not only or only in j["name"]]
    pairs = runner.run_jobs(js, nproc=nproc, seed=seed)
    return runner.finish(
        PROP, tier, seed, pairs, t0,
        assumptions=["the RNG is a deterministic function of random_state (stub: draws named by call order); NumPy's generator itself is outside",
                     "one-epoch fits under the stub environment (identity validation, recording optimiser, stubbed GEMINI values)",
                     "history = sequences of <= 2 earlier public calls; bit-for-bit float reproducibility is outside the claim"],
        bounds={"tier": tier, "jobs": [j["name"] for j in js]})
