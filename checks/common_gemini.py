"""Shared pieces of the GEMINI checks (C01, C02, C13, C17): catalogue of objectives, the definitional oracle
(written from the class docstrings, generic over a symbolic / float backend), optimal-transport stubs, replay."""
from __future__ import annotations

import math
from fractions import Fraction

import numpy as np

from symx import core, loader, npx, harness
from symx.core import K, Rat, to_rat

EPS = 1e-12

# label -> (how to build, distance kind, ovo)
CLASSES = {
    "KL-ova": ("KLGEMINI", dict(ovo=False), "kl", False),
    "KL-ovo": ("KLGEMINI", dict(ovo=True), "kl", True),
    "MI": ("MI", dict(), "kl", False),
    "TV-ova": ("TVGEMINI", dict(ovo=False), "tv", False),
    "TV-ovo": ("TVGEMINI", dict(ovo=True), "tv", True),
    "H2-ova": ("HellingerGEMINI", dict(ovo=False), "h2", False),
    "H2-ovo": ("HellingerGEMINI", dict(ovo=True), "h2", True),
    "CHI2-ova": ("ChiSquareGEMINI", dict(ovo=False), "chi2", False),
    "CHI2-ovo": ("ChiSquareGEMINI", dict(ovo=True), "chi2", True),
    "MMD-ova": ("MMDGEMINI", dict(ovo=False, kernel="precomputed"), "mmd", False),
    "MMD-ovo": ("MMDGEMINI", dict(ovo=True, kernel="precomputed"), "mmd", True),
    "W-ova": ("WassersteinGEMINI", dict(ovo=False, metric="precomputed"), "w", False),
    "W-ovo": ("WassersteinGEMINI", dict(ovo=True, metric="precomputed"), "w", True),
}

# documented registry: name -> (distance, ovo)
REGISTRY = {
    "mmd_ova": ("mmd", False), "mmd_ovo": ("mmd", True),
    "wasserstein_ova": ("w", False), "wasserstein_ovo": ("w", True),
    "kl_ova": ("kl", False), "kl_ovo": ("kl", True), "mi": ("kl", False),
    "tv_ova": ("tv", False), "tv_ovo": ("tv", True),
    "hellinger_ova": ("h2", False), "hellinger_ovo": ("h2", True),
    "chi2_ova": ("chi2", False), "chi2_ovo": ("chi2", True),
}


def needs_affinity(kind):
    return kind in ("mmd", "w")


def build(label, symbolic=True):
    """instantiate the GEMINI named by `label` ('reg:<name>' for registry names) from the symbolic or real package."""
    if symbolic:
        gm = loader.load("gemini")
        utils = loader.load("gemini._utils")
    else:
        gm = loader.real("gemini")
        utils = loader.real("gemini._utils")
    if label.startswith("reg:"):
        name = label[4:]
        kind, ovo = REGISTRY[name]
        return utils._str_to_gemini(name), kind, ovo
    cls, kw, kind, ovo = CLASSES[label]
    return getattr(gm, cls)(**kw), kind, ovo


# ----------------------------------------------------------------------------------------------------------------------
# optimal transport stub (POT's emd2 is C++): an uninterpreted function of (a, b, M) with the documented contract


class EmdStub:
    """ot.emd2(a, b, M, log=True) -> (cost, {'u':..., 'v':...});  cost, u, v are uninterpreted values keyed by the
    *terms* of (a, b, M) (congruence by interning), cost >= 0.  d cost = sum u_i da_i + sum v_j db_j (envelope
    theorem at a unique dual optimum) is made available to symx.diff through `grad_table`."""

    def __init__(self):
        self.calls = []
        self.grad_table = {}

    def emd2(self, a, b, M, log=False, **kw):
        a = [to_rat(x) for x in np.asarray(a, dtype=object).reshape(-1)]
        b = [to_rat(x) for x in np.asarray(b, dtype=object).reshape(-1)]
        Mo = np.asarray(M, dtype=object)
        Mo = np.array([[to_rat(Mo[i, j]) for j in range(Mo.shape[1])] for i in range(Mo.shape[0])], dtype=object)
        # W(a,b;M) is invariant under relabelling the source points (a_i with row i of M), the target points (b_j with
        # column j) and under exchanging the roles (b,a,M^T): one canonical application per orbit, so that congruence by
        # interning also identifies permuted / swapped calls.  Points are ordered by the repr of (mass term, cost row).
        best = None
        na_, nb_ = len(a), len(b)
        if na_ <= 4 and nb_ <= 4:
            import itertools as _it
            ra = [repr(x.key()) for x in a]
            rb = [repr(x.key()) for x in b]
            rM = [[repr(Mo[i, j].key()) for j in range(nb_)] for i in range(na_)]
            # candidate orders: only those sorting the masses (ties permuted exhaustively)
            def orders(r):
                idx = sorted(range(len(r)), key=lambda i: r[i])
                groups = []
                for i in idx:
                    if groups and r[groups[-1][0]] == r[i]:
                        groups[-1].append(i)
                    else:
                        groups.append([i])
                for combo in _it.product(*[_it.permutations(g) for g in groups]):
                    yield [i for g in combo for i in g]
            for ia_ in orders(ra):
                for ib_ in orders(rb):
                    k1 = (tuple(ra[i] for i in ia_), tuple(rb[j] for j in ib_), tuple(rM[i][j] for i in ia_ for j in ib_))
                    if best is None or k1 < best[0]:
                        best = (k1, ia_, ib_, False)
                    k2 = (tuple(rb[j] for j in ib_), tuple(ra[i] for i in ia_), tuple(rM[i][j] for j in ib_ for i in ia_))
                    if k2 < best[0]:
                        best = (k2, ia_, ib_, True)
            _, ia, ib, swapped = best
        else:
            ia = sorted(range(len(a)), key=lambda i: repr((a[i].key(), sorted(repr(Mo[i, j].key()) for j in range(len(b))))))
            ib = sorted(range(len(b)), key=lambda j: repr((b[j].key(), sorted(repr(Mo[i, j].key()) for i in range(len(a))))))
            swapped = None
        ka = tuple(a[i].key() for i in ia)
        kb = tuple(b[j].key() for j in ib)
        kM = tuple(Mo[i, j].key() for i in ia for j in ib)
        kMt = tuple(Mo[i, j].key() for j in ib for i in ia)
        if swapped is None:
            swapped = repr((kb, ka, kMt)) < repr((ka, kb, kM))
        key = (kb, ka, kMt) if swapped else (ka, kb, kM)
        cost = core.uf("emd", key, sign="0+")
        # canonical duals, then mapped back to the caller's order
        na, nb = len(a), len(b)
        cu = [core.uf("emd_u", key, i) for i in range(nb if swapped else na)]
        cv = [core.uf("emd_v", key, j) for j in range(na if swapped else nb)]
        u = np.empty(na, dtype=object)
        v = np.empty(nb, dtype=object)
        for pos, i in enumerate(ia):
            u[i] = (cv if swapped else cu)[pos]
        for pos, j in enumerate(ib):
            v[j] = (cu if swapped else cv)[pos]
        fid = cost.f[0][0]
        self.calls.append((key, cost))

        def g(differ, a=a, b=b, u=u, v=v):
            terms = []
            for i in range(len(a)):
                da = differ.drat(a[i])
                if da.c != 0:
                    terms.append(u[i] * da)
            for j in range(len(b)):
                db = differ.drat(b[j])
                if db.c != 0:
                    terms.append(v[j] * db)
            return core.add_many(terms) if terms else core.ZERO
        self.grad_table[fid] = g
        if log:
            return cost, {"u": u, "v": v}
        return cost


# ----------------------------------------------------------------------------------------------------------------------
# the definitional oracle


class SymBackend:
    log = staticmethod(core.sym_log)
    sqrt = staticmethod(core.sym_sqrt)
    abs = staticmethod(core.sym_abs)

    @staticmethod
    def max0(x):
        x = to_rat(x)
        return x if bool(x >= 0) else K(0)

    @staticmethod
    def frac(a, b):
        return K(Fraction(a, b))


class FloatBackend:
    log = staticmethod(math.log)
    sqrt = staticmethod(math.sqrt)
    abs = staticmethod(abs)

    @staticmethod
    def max0(x):
        return max(x, 0.0)

    @staticmethod
    def frac(a, b):
        return a / b


def oracle(kind, ovo, P, A, bk, emd=None):
    """GEMINI = E_{y~p(y)} D(p(x|y) || p(x))  (OvA)   or   E_{ya,yb} D(p(x|ya) || p(x|yb))  (OvO),
    with p(y=k) = mean_i P[i,k],  p(x_i|y=k) = P[i,k] / (N p(y=k)),  p(x_i) = 1/N."""
    n, Kc = P.shape
    pi = [sum(P[i, k] for i in range(n)) * bk.frac(1, n) for k in range(Kc)]
    q = [[P[i, k] / (n * pi[k]) for i in range(n)] for k in range(Kc)]
    r = [bk.frac(1, n) for _ in range(n)]

    def D(u, v):
        if kind == "kl":
            return sum(u[i] * bk.log(u[i] / v[i]) for i in range(n))
        if kind == "tv":
            return bk.frac(1, 2) * sum(bk.abs(u[i] - v[i]) for i in range(n))
        if kind == "h2":
            return 1 - sum(bk.sqrt(u[i] * v[i]) for i in range(n))
        if kind == "chi2":
            return sum((u[i] - v[i]) * (u[i] - v[i]) / v[i] for i in range(n))
        if kind == "mmd":
            d = [u[i] - v[i] for i in range(n)]
            quad = sum(d[i] * A[i, j] * d[j] for i in range(n) for j in range(n))
            return bk.sqrt(bk.max0(quad))
        if kind == "w":
            return emd(u, v, A)
        raise ValueError(kind)

    if not ovo:
        val = sum(pi[k] * D(q[k], r) for k in range(Kc))
    else:
        val = 0
        for a in range(Kc):
            for b in range(Kc):
                if a == b:
                    continue  # D(q,q) = 0 for every distance above
                val = val + pi[a] * pi[b] * D(q[a], q[b])
    if kind == "chi2":
        val = (val + 1) * bk.frac(1, 2)   # the documented affine convention of the chi-square family
    return val


def float_emd(u, v, M):
    """Wasserstein-1 by linear programming (independent of POT)."""
    from scipy.optimize import linprog
    n, m = len(u), len(v)
    c = np.asarray(M, dtype=float).reshape(-1)
    Aeq = []
    beq = []
    for i in range(n):
        row = np.zeros((n, m))
        row[i, :] = 1
        Aeq.append(row.reshape(-1))
        beq.append(u[i])
    for j in range(m):
        row = np.zeros((n, m))
        row[:, j] = 1
        Aeq.append(row.reshape(-1))
        beq.append(v[j])
    res = linprog(c, A_eq=np.array(Aeq), b_eq=np.array(beq), bounds=(0, None), method="highs")
    return float(res.fun)


def float_oracle(kind, ovo, P, A):
    return float(oracle(kind, ovo, np.asarray(P, dtype=float), None if A is None else np.asarray(A, dtype=float),
                        FloatBackend, emd=float_emd))


# ----------------------------------------------------------------------------------------------------------------------
# inputs


def sym_inputs(kind, n, Kc, open_=True, closed=False, eps=EPS):
    P, base = harness.simplex_matrix(n, Kc, eps, open_=open_, closed=closed)
    A = None
    if kind == "mmd":
        A = harness.symmetric_matrix(n, "a")
    elif kind == "w":
        A = harness.symmetric_matrix(n, "m", sign="0+", zero_diag=True)
    return P, base, A


def concrete_inputs(model, n, Kc, kind):
    """float P (rows renormalised exactly from the independent entries) and A from a solver model."""
    P = np.zeros((n, Kc))
    for i in range(n):
        s = 0.0
        for k in range(Kc - 1):
            v = float(model.get(f"p_{i}_{k}", Fraction(1, Kc)))
            P[i, k] = v
            s += v
        P[i, Kc - 1] = 1.0 - s
    A = None
    if kind in ("mmd", "w"):
        pre = "a" if kind == "mmd" else "m"
        A = np.zeros((n, n))
        for i in range(n):
            for j in range(i, n):
                if kind == "w" and i == j:
                    continue
                A[i, j] = A[j, i] = float(model.get(f"{pre}_{i}_{j}", 1.0 if i != j else 2.0))
    return P, A


def install_ot_stub(stub):
    gd = loader.load("gemini._geomdistances")

    class _OT:
        emd2 = staticmethod(stub.emd2)
    gd.ot = _OT
    return gd


def affinity_candidates(kind, n, A_model, extra=0):
    """affinities to replay with: the solver's own, plus generic ones (the solver is free to pick a degenerate
    affinity -- e.g. an all-zero metric -- because transport costs / radicals are abstracted; the claim is for every
    symmetric affinity, so any of them reproducing the failure is a counterexample)."""
    if kind not in ("mmd", "w"):
        return [None]
    out = [A_model]
    idx = np.arange(n)
    line = np.abs(idx[:, None] - idx[None, :]).astype(float)
    rng = np.random.default_rng(7)
    R = rng.uniform(0.2, 2.0, size=(n, n))
    R = (R + R.T) / 2
    if kind == "w":
        np.fill_diagonal(R, 0.0)
        out += [line, R, line ** 2]
        # `extra` costs that violate the triangle inequality in different ways (the claim is for every symmetric
        # non-negative zero-diagonal cost; defects that are exact for true metrics only show on these)
        for t in range(extra):
            r2 = np.random.default_rng(100 + t)
            Q = r2.uniform(0.05, 3.0, size=(n, n)) ** (1 + t % 3)
            Q = (Q + Q.T) / 2
            np.fill_diagonal(Q, 0.0)
            out.append(Q)
    else:
        G = rng.normal(size=(n, 3))
        out += [G @ G.T, np.exp(-line), R]
    return out


def candidate_models(model, n, Kc, pc, count=12, seed=11):
    """the solver's point, then generic interior points that satisfy the same path condition (the solver is free to pick
    a point that is degenerate for the abstracted parts -- identical clusters, zero costs -- where a real difference
    vanishes; the failed obligation holds for the whole path, so any on-path point may exhibit it)."""
    import random
    base = {k: str(v) for k, v in (model or {}).items() if k[0] in "pam" and "!" not in k}
    out = [base]
    rng = random.Random(seed)
    tries = 0
    while len(out) < count and tries < 40 * count:
        tries += 1
        m = dict(base)
        for i in range(n):
            w = [rng.uniform(0.05, 1.0) for _ in range(Kc)] if len(out) % 2 else [max(1e-3, rng.expovariate(1.0)) for _ in range(Kc)]
            t = sum(w)
            for k in range(Kc - 1):
                m[f"p_{i}_{k}"] = str(Fraction(min(max(w[k] / t, 2e-3), 1 - 2e-3)).limit_denominator(1000))
        ok = harness.pc_holds(pc or [], {k: Fraction(v) for k, v in m.items()})
        if ok is True or (ok is None and not pc):
            out.append(m)
    return out
