"""C01 -- GEMINI scores equal their defining statistical distances.

For every objective (6 classes x ovo flag, MI, the 13 registry names, evaluate() and __call__) the REAL
``evaluate(P, A)`` is executed on a symbolic row-stochastic P (open simplex, by substitution) and a fully symbolic
symmetric affinity, and the returned term is compared by the solver with the definitional oracle of
checks.common_gemini (written from the docstrings).  One query per (objective, shape, feasible path).
"""
from __future__ import annotations

import json
import random
import time
from fractions import Fraction

import numpy as np

from symx import core, harness, loader, runner, solve
from symx.explore import Explorer, PathError
from . import common_gemini as cg

PROP = "C01"
QUICK_SHAPES = [(1, 2), (2, 2), (3, 2), (2, 3)]
THOROUGH_SHAPES = QUICK_SHAPES + [(3, 3), (4, 2), (2, 4), (1, 3)]
TOL = 1e-7
LONG_N_QUICK = [67, 300]          # lengths of the replicated-row inputs (just above 64 and 256: typical block sizes)
LONG_N_THOROUGH = [67, 131, 300, 1031]


def labels(tier):
    ls = list(cg.CLASSES) + ["reg:" + n for n in cg.REGISTRY]
    return ls


def long_pattern(N, m):
    """which of the m distinct symbolic rows sits at each of the N positions (first and last positions hold different rows,
    every row occurs several times, no periodicity that a block size could align with)"""
    pat = [(i * 7 + i // 5 + (i * i) // 11) % m for i in range(N)]
    pat[0], pat[-1] = 0, m - 1
    return pat


def _expand(P, A, pattern):
    if pattern is None:
        return P, A
    idx = np.asarray(pattern)
    return P[idx], (None if A is None else A[np.ix_(idx, idx)])


FIXED_AFFINITIES = {
    # concrete affinities of non-float dtype (integer / boolean distance matrices are legal precomputed inputs)
    "int": lambda n: np.abs(np.arange(n)[:, None] * 2 - np.arange(n)[None, :] * 2) + (np.arange(n)[:, None] != np.arange(n)[None, :]),
    "bool": lambda n: ~np.eye(n, dtype=bool),
}


def job(label, n, Kc, via="evaluate", timeout_q=20.0, max_paths=4000, long_n=None, affinity=None):
    """long_n: the predictions have long_n rows drawn (by a fixed pattern) from n distinct symbolic rows, the affinity is the
    corresponding replicated block matrix: code whose behaviour depends on the LENGTH of the input (blocking, chunking)
    is executed with its real constants, at the price of only n distinct rows."""
    loader.install()
    pattern = long_pattern(long_n, n) if long_n else None
    res = {"paths": 0, "queries": 0, "obligations": [], "violations": [], "validated": 0, "witnesses": 0, "samples": []}
    state = {}

    def setup():
        stub = cg.EmdStub()
        cg.install_ot_stub(stub)
        gem, kind, ovo = cg.build(label)
        core.CTX.merge_sign = (kind == "tv")   # np.sign/np.abs as sgn atoms: one path, the solver splits the cases
        P, base, A = cg.sym_inputs(kind, n, Kc, eps=gem.epsilon)
        if affinity:
            A = FIXED_AFFINITIES[affinity](n)
        state.update(stub=stub, gem=gem, kind=kind, ovo=ovo)
        return _expand(P, A, pattern)

    def body(arg):
        P, A = arg
        gem, kind, ovo, stub = state["gem"], state["kind"], state["ovo"], state["stub"]
        if via == "call":
            impl = gem(P.copy(), None if A is None else A.copy())
        else:
            impl = gem.evaluate(P.copy(), None if A is None else A.copy(), return_grad=False)
        orc = cg.oracle(kind, ovo, P, A, cg.SymBackend, emd=lambda u, v, M: stub.emd2(u, v, M))
        return impl, orc

    ex = Explorer(max_paths=max_paths)
    rng = random.Random(1)
    for out, pc, trace in ex.run(body, setup):
        res["paths"] += 1
        kind, ovo = state["kind"], state["ovo"]
        tag = f"{label}/{via}/n{n}K{Kc}{'/N%d' % long_n if long_n else ''}{'/' + affinity + '-affinity' if affinity else ''}/path{res['paths']}"
        if isinstance(out, PathError):
            # the engine could not execute this path: fall back to a concrete comparison at a witness of the path
            v, wmodel = harness.reachable(pc, timeout_s=10.0)
            ob = {"name": tag + "/path-error", "verdict": "inconclusive", "how": repr(out)[:200]}
            if v == "unsat":
                continue
            if v == "sat":
                bad = False
                # the witness of the path, then generic points of the same path (a witness is often degenerate: uniform predictions)
                for cand in cg.candidate_models(wmodel, n, Kc, pc):
                    rep = {"label": label, "via": via, "n": n, "K": Kc, "pattern": pattern, "affinity": affinity, "model": cand}
                    try:
                        bad = replay(rep)
                    except Exception as e:   # the real code raises on a valid input: that is a finding too
                        bad = True
                        rep["exception"] = f"{type(e).__name__}: {e}"
                    if bad:
                        break
                if bad:
                    res["violations"].append({"signature": f"{PROP}:{label.replace('reg:', '')}:score",
                                              "what": f"{label} via {via}: score differs from the documented definition at n={n},K={Kc} (concrete fallback)", "replay": rep})
            res["obligations"].append(ob)
            continue
        impl, orc = out
        impl = core.to_rat(np.asarray(impl, dtype=object).reshape(-1)[0]) if isinstance(impl, np.ndarray) else core.to_rat(impl)
        # vacuity guard: this path must be reachable
        v, wmodel = harness.reachable(pc, timeout_s=10.0)
        res["queries"] += 1
        if v == "unsat":
            continue  # infeasible path kept by an 'unknown' feasibility answer: nothing to prove
        if v == "sat":
            res["witnesses"] += 1
        # definedness of the implementation's value on the open simplex
        dres = harness.check_defined([impl], pc, name=tag + "/defined")
        res["queries"] += dres.get("n_guards", 0)
        res["obligations"].append(_strip(dres))
        # the property
        d = impl - orc
        o = harness.prove_zero(d, pc, timeout_s=timeout_q, name=tag + "/score==definition")
        res["queries"] += 1
        res["obligations"].append(_strip(o))
        if len(res["samples"]) < 2:
            res["samples"].append({"obligation": tag, "impl_term": repr(impl)[:160], "oracle_term": repr(core.to_rat(orc))[:160],
                                   "pc_size": len(pc), "verdict": o["verdict"], "how": o.get("how")})
        # engine validation at the witness point: symbolic term vs the real implementation
        if wmodel is not None:
            ok = _validate(label, via, n, Kc, kind, ovo, impl, wmodel, orc, pattern, affinity)
            if ok is not None:
                res["validated"] += 1
                if not ok:
                    res["obligations"].append({"name": tag + "/engine-validation", "verdict": "inconclusive", "how": "symbolic term and real run disagree"})
        for cand in (o, dres):
            if cand["verdict"] == "sat" and cand.get("model"):
                rep = {"label": label, "via": via, "n": n, "K": Kc, "pattern": pattern, "affinity": affinity, "model": {k: str(v) for k, v in cand["model"].items() if k[0] in "pam"}}
                if replay(rep):
                    res["violations"].append({"signature": f"{PROP}:{label.replace('reg:', '')}:{'score' if cand is o else 'undefined'}",
                                              "what": f"{label} via {via}: score differs from the documented definition at n={n},K={Kc}",
                                              "replay": rep})
                else:
                    res["obligations"][-1 if cand is o else -2]["verdict"] = "inconclusive"
    if ex.truncated or ex.depth_hits:
        res["obligations"].append({"name": f"{label}/n{n}K{Kc}/exploration", "verdict": "unknown", "how": "path budget exhausted"})
    return res


def _strip(o):
    return {k: v for k, v in o.items() if k != "model"}


def _validate(label, via, n, Kc, kind, ovo, impl, model, orc=None, pattern=None, affinity=None):
    """run the REAL gemclus at the witness point and compare with the symbolic term evaluated there."""
    if kind == "w":
        return None  # the symbolic term contains the transport stub: not evaluable; wiring is checked by the query
    try:
        P, A = cg.concrete_inputs(model, n, Kc, kind)
        if affinity:
            A = FIXED_AFFINITIES[affinity](n)
        P, A = _expand(P, A, pattern)
        gem, _, _ = cg.build(label, symbolic=False)
        real = gem(P, A) if via == "call" else gem.evaluate(P, A)
        env = harness.model_env(model)
        sym = core.eval_float(impl, env)
        ok = abs(float(real) - sym) <= 1e-6 * max(1.0, abs(sym))
        if orc is not None:
            # the oracle is validated the same way: its symbolic term vs the float oracle
            ok = ok and abs(cg.float_oracle(kind, ovo, P, A) - core.eval_float(core.to_rat(orc), env)) <= 1e-6 * max(1.0, abs(sym))
        return ok
    except Exception:
        return None


def replay(rep, verbose=False):
    """real implementation vs. independent float oracle at the model point.  True = the violation reproduces."""
    model = {k: Fraction(v) for k, v in rep["model"].items()}
    label, n, Kc = rep["label"], rep["n"], rep["K"]
    gem, kind, ovo = cg.build(label, symbolic=False)
    P, A = cg.concrete_inputs(model, n, Kc, kind)
    if P.min() <= cg.EPS or P.max() >= 1 - cg.EPS:
        return False
    # the clipping precision is a constructor argument: an error of its size (invisible in float64 at the default 1e-12, visible to
    # the exact check) is exhibited with a coarser one, at the same point, as long as nothing is clipped
    gems = [(gem, None)]
    if hasattr(gem, "epsilon"):
        import inspect
        accepted = set(inspect.signature(type(gem).__init__).parameters)
        for eps in (1e-6, 1e-3, 1e-2):
            if "epsilon" in accepted and 2 * eps < P.min() and P.max() < 1 - 2 * eps:
                gems.append((type(gem)(**{k: v for k, v in gem.__dict__.items() if k in accepted and k != "epsilon"}, epsilon=eps), eps))
    for Ac in ([FIXED_AFFINITIES[rep["affinity"]](n)] if rep.get("affinity") else cg.affinity_candidates(kind, n, A)):
        Pl, Ac = _expand(P, Ac, rep.get("pattern"))
        ref = cg.float_oracle(kind, ovo, Pl, Ac)
        for g, eps in gems:
            real = float(g(Pl, Ac) if rep.get("via") == "call" else g.evaluate(Pl, Ac))
            bad = not (abs(real - ref) <= TOL * max(1.0, abs(ref)))
            if verbose:
                print(f"P={Pl.tolist() if len(Pl) <= 8 else 'rows ' + str(P.tolist()) + ' in pattern ' + str(rep.get('pattern'))} A={None if Ac is None else Ac.tolist()}"
                      f"{'' if eps is None else ' epsilon=' + str(eps)} library={real!r} definition={ref!r} {'MISMATCH' if bad else 'ok'}")
            if bad:
                return True
    return False


def jobs(tier):
    shapes = QUICK_SHAPES if tier == "quick" else THOROUGH_SHAPES
    out = []
    for lab in labels(tier):
        kind = (cg.REGISTRY[lab[4:]] if lab.startswith("reg:") else cg.CLASSES[lab][2:])[0]
        for (n, Kc) in shapes:
            hard = kind in ("mmd", "h2", "tv") and (n * Kc >= 8)
            tq = 20.0 if tier == "quick" else 120.0
            out.append({"name": f"{lab}/n{n}K{Kc}", "target": "checks.c01:job",
                        "kwargs": dict(label=lab, n=n, Kc=Kc, via="evaluate", timeout_q=tq),
                        "timeout": (150 if tier == "quick" else 1500)})
        if not lab.startswith("reg:"):
            out.append({"name": f"{lab}/call/n2K2", "target": "checks.c01:job",
                        "kwargs": dict(label=lab, n=2, Kc=2, via="call", timeout_q=20.0), "timeout": 150})
    for lab in cg.CLASSES:
        kind = cg.CLASSES[lab][2:][0]
        if kind in ("w", "mmd"):
            for aff in ("int", "bool"):
                out.append({"name": f"{lab}/n3K2/{aff}-affinity", "target": "checks.c01:job",
                            "kwargs": dict(label=lab, n=3, Kc=2, via="evaluate", timeout_q=20.0, affinity=aff), "timeout": 150 if tier == "quick" else 1500})
    for lab in cg.CLASSES:
        kind = cg.CLASSES[lab][2:][0]
        if kind == "w":
            continue   # the transport stub enumerates orderings: n <= 4 only
        for N in (LONG_N_QUICK if tier == "quick" else LONG_N_THOROUGH):
            if kind == "mmd" and N > 150:
                continue   # N^2 kernel entries
            for (m, Kc) in ([(3, 2)] if tier == "quick" else [(3, 2), (2, 3)]):
                out.append({"name": f"long/{lab}/N{N}/rows{m}K{Kc}", "target": "checks.c01:job",
                            "kwargs": dict(label=lab, n=m, Kc=Kc, via="evaluate", timeout_q=30.0, long_n=N), "timeout": 300 if tier == "quick" else 1500})
    out.append({"name": "engine-selftest", "target": "symx.selftest:job", "kwargs": dict(n_cases=300 if tier == "quick" else 1500, seed=0), "timeout": 600})
    return out


def run(tier, seed, only=None, nproc=None):
    t0 = time.time()
    js = [j for j in jobs(tier) if not only or only in j["name"]]
    pairs = runner.run_jobs(js, nproc=nproc, seed=seed)
    return runner.finish(
        PROP, tier, seed, pairs, t0,
        assumptions=["P on the open simplex eps < p_ik < 1-eps (rows sum to 1 by substitution)",
                     "exact real arithmetic (no floating-point rounding)",
                     "affinity: arbitrary symmetric real matrix (MMD), symmetric non-negative zero-diagonal (Wasserstein)",
                     "ot.emd2 is an uninterpreted function of its arguments (POT computing W1 is trusted)"],
        bounds={"shapes(n,K)": QUICK_SHAPES if tier == "quick" else THOROUGH_SHAPES, "objectives": labels(tier),
                "long inputs": f"N in {LONG_N_QUICK if tier == 'quick' else LONG_N_THOROUGH} rows drawn by a fixed pattern from 3 (2 for K=3) distinct symbolic rows; all classes except Wasserstein; MMD N<=131",
                "outside": "more distinct rows than stated; float rounding; POT's solver"},
        stubs=["ot.emd2 -> uninterpreted (cost,u,v) keyed by argument terms"])
