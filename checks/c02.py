"""C02 -- GEMINI gradients are the exact derivative of the returned score.

The REAL ``evaluate(P, A, return_grad=True)`` runs on a symbolic P whose last column is 1 - sum(others) (the simplex
by substitution).  With x_ik the independent entries, the derivative of the returned score term along the simplex
direction e_k - e_K of row i is  dS(P(x))/dx_ik  (computed by exact differentiation of the term, symx.diff), and the
property says it equals  G_ik - G_iK  for the returned gradient G.  Also: score(return_grad=True) ==
score(return_grad=False), G.shape == P.shape, clipped entries get zero gradient (closed-simplex job).
"""
from __future__ import annotations

import time
from fractions import Fraction

import numpy as np

from symx import core, harness, loader, runner, diff
from symx.explore import Explorer, PathError
from . import common_gemini as cg

PROP = "C02"
QUICK_SHAPES = [(2, 2), (3, 2), (2, 3)]
THOROUGH_SHAPES = QUICK_SHAPES + [(1, 2), (3, 3), (4, 2), (2, 4)]


def _long_pattern(N, m):
    """rows 0..m-2 spread aperiodically over positions 0..N-2, row m-1 exactly once, in the last position (a trailing partial block
    then holds a row of its own, whose gradient is checked entry-wise)"""
    from .c01 import long_pattern
    pat = [r % (m - 1) for r in long_pattern(N, m)] if m > 1 else [0] * N
    pat[0] = 0
    pat[-1] = m - 1
    return pat


def job(label, n, Kc, timeout_q=20.0, max_paths=3000, long_n=None):
    """long_n: long_n rows drawn from n distinct symbolic rows (see checks.c01); by the chain rule the derivative of the score with
    respect to the independent entries of distinct row r is the SUM of G_ik - G_iK over the positions i holding that row."""
    loader.install()
    pattern = _long_pattern(long_n, n) if long_n else None
    res = {"paths": 0, "queries": 0, "obligations": [], "violations": [], "validated": 0, "witnesses": 0, "samples": []}
    st = {}

    def setup():
        stub = cg.EmdStub()
        cg.install_ot_stub(stub)
        gem, kind, ovo = cg.build(label)
        core.CTX.merge_sign = (kind == "tv")
        core.CTX.strict = True      # differentiability region: ties (TV sign changes, MMD zero distances) excluded
        P, base, A = cg.sym_inputs(kind, n, Kc, eps=gem.epsilon)
        st.update(stub=stub, gem=gem, kind=kind, ovo=ovo, base=base)
        if pattern is not None:
            idx = np.asarray(pattern)
            P, A = P[idx], (None if A is None else A[np.ix_(idx, idx)])
        return P, A

    def body(arg):
        P, A = arg
        gem = st["gem"]
        S, G = gem.evaluate(P.copy(), None if A is None else A.copy(), return_grad=True)
        S0 = gem.evaluate(P.copy(), None if A is None else A.copy(), return_grad=False)
        return S, G, S0, P
    n_rows = long_n or n

    ex = Explorer(max_paths=max_paths)
    for out, pc, trace in ex.run(body, setup):
        res["paths"] += 1
        kind, ovo = st["kind"], st["ovo"]
        tag = f"{label}/n{n}K{Kc}{'/N%d' % long_n if long_n else ''}/path{res['paths']}"
        if isinstance(out, PathError):
            _path_error(res, out, pc, tag, label, n, Kc, "grad", pattern)
            continue
        S, G, S0, P = out
        S = _scalar(S)
        S0 = _scalar(S0)
        v, wmodel = harness.reachable(pc, timeout_s=8.0)
        res["queries"] += 1
        if v == "unsat":
            continue
        if v == "sat":
            res["witnesses"] += 1
        G = np.asarray(G, dtype=object)
        ok_shape = tuple(G.shape) == (n_rows, Kc)
        res["obligations"].append({"name": tag + "/grad.shape==P.shape", "verdict": "unsat" if ok_shape else "sat", "how": "syntactic"})
        if not ok_shape:
            res["violations"].append({"signature": f"{PROP}:{_base(label)}:shape", "what": f"{label}: gradient shape {G.shape} != {(n_rows, Kc)}",
                                      "replay": {"label": label, "n": n, "K": Kc, "model": {}, "kind": "shape", "pattern": pattern}})
            continue
        o = harness.prove_zero(S - S0, pc, timeout_s=timeout_q, name=tag + "/score(grad)==score(nograd)")
        res["queries"] += 1
        res["obligations"].append(_strip(o))
        if o["verdict"] == "sat":
            _report(res, label, n, Kc, o, "score-differs-with-return_grad", tag, pc, pattern)
        flatG = [x if harness.nonfinite(x) else core.to_rat(x) for x in G.reshape(-1)]
        dres = harness.check_defined([S] + flatG, pc, name=tag + "/defined")
        if dres["verdict"] == "sat" and dres.get("model") is None and wmodel is not None:
            dres["model"] = wmodel       # undefined on the whole path: any point of the path is a witness
        res["queries"] += dres.get("n_guards", 0)
        res["obligations"].append(_strip(dres))
        if dres["verdict"] == "sat":
            _report(res, label, n, Kc, dres, "undefined", tag, pc, pattern)
        if any(harness.nonfinite(x) for x in [S] + flatG):
            continue
        for i in range(n):
            for k in range(Kc - 1):
                x = st["base"][i][k]
                dS = diff.Differ(x.f[0][0], uf_grad=st["stub"].grad_table).drat(S)
                if pattern is None:
                    lhs = core.to_rat(G[i, k]) - core.to_rat(G[i, Kc - 1])
                else:
                    lhs = core.add_many([core.to_rat(G[pos, k]) - core.to_rat(G[pos, Kc - 1]) for pos in range(n_rows) if pattern[pos] == i])
                o = harness.prove_zero(lhs - dS, pc, timeout_s=timeout_q, name=tag + f"/dS/dx[{i},{k}]==G[{i},{k}]-G[{i},{Kc - 1}]")
                res["queries"] += 1
                res["obligations"].append(_strip(o))
                if len(res["samples"]) < 2:
                    res["samples"].append({"obligation": o["name"], "verdict": o["verdict"], "how": o.get("how"), "pc_size": len(pc),
                                           "grad_term": repr(lhs)[:140]})
                if o["verdict"] == "sat":
                    _report(res, label, n, Kc, o, "grad", tag, pc, pattern)
        if wmodel is not None and kind != "w" and pattern is None:
            ok = _validate(label, n, Kc, kind, S, flatG, wmodel)
            if ok is not None:
                res["validated"] += 1
                if not ok:
                    res["obligations"].append({"name": tag + "/engine-validation", "verdict": "inconclusive", "how": "symbolic term and real run disagree"})
    if ex.truncated or ex.depth_hits:
        res["obligations"].append({"name": f"{label}/n{n}K{Kc}/exploration", "verdict": "unknown", "how": "path budget exhausted"})
    return res


def job_clip(label, n, Kc, max_paths=600, timeout_q=15.0):
    """P in the closed box [0,1] (rows sum to 1), clipping LIVE (forked into every pattern of entries below eps /
    inside / above 1-eps).  On every path with something clipped: clipped entries get exactly zero gradient, and the
    gradient identity dS/dx_ik == G_ik - G_iK still holds for the returned score (which is computed on the clipped
    predictions), i.e. unclipped entries still receive the true derivative."""
    loader.install()
    res = {"paths": 0, "queries": 0, "obligations": [], "violations": [], "validated": 0, "witnesses": 0, "samples": []}
    st = {}

    def setup():
        stub = cg.EmdStub()
        cg.install_ot_stub(stub)
        gem, kind, ovo = cg.build(label)
        core.CTX.merge_sign = True
        core.CTX.strict = True
        P, base, A = cg.sym_inputs(kind, n, Kc, open_=False, closed=True, eps=gem.epsilon)
        st.update(gem=gem, kind=kind, P=P, base=base, stub=stub)
        return P, A

    def body(arg):
        P, A = arg
        gem = st["gem"]
        lo, hi = gem.epsilon, 1 - gem.epsilon   # thresholds exactly as the code computes them (float arithmetic)
        mask = [[(bool(P[i, k] > lo) and bool(P[i, k] < hi)) for k in range(Kc)] for i in range(n)]
        if all(all(r) for r in mask):
            return None  # nothing clipped on this path: covered by job()
        S, G = gem.evaluate(P.copy(), None if A is None else A.copy(), return_grad=True)
        S0 = gem.evaluate(P.copy(), None if A is None else A.copy(), return_grad=False)
        return mask, G, (S, S0)

    ex = Explorer(max_paths=max_paths)
    for out, pc, trace in ex.run(body, setup):
        if out is None:
            continue
        res["paths"] += 1
        tag = f"{label}/clip/n{n}K{Kc}/path{res['paths']}"
        if isinstance(out, PathError):
            _path_error(res, out, pc, tag, label, n, Kc, "grad-clipped")
            continue
        mask, G, (S, S0) = out
        S, S0 = _scalar(S), _scalar(S0)
        G = np.asarray(G, dtype=object)
        # the score does not depend on whether the gradient was asked for (also with clipped entries)
        o = harness.prove_zero(core.to_rat(S) - core.to_rat(S0), pc, timeout_s=timeout_q, name=tag + "/score(return_grad=True)==score(return_grad=False)")
        if o.get("how", "").startswith("solver"):
            res["queries"] += 1
        res["obligations"].append(_strip(o))
        if o["verdict"] == "sat":
            rep = {"label": label, "n": n, "K": Kc, "kind": "grad-clipped", "model": {k: str(v) for k, v in (o.get("model") or {}).items() if k[0] in "pam"}}
            if o.get("model") and replay(rep):
                if not any(v["signature"].endswith(":score-depends-on-return_grad") for v in res["violations"]):
                    res["violations"].append({"signature": f"{PROP}:{_base(label)}:score-depends-on-return_grad",
                                              "what": f"{label}: with clipped entries the returned score differs with and without return_grad (n={n},K={Kc})", "replay": rep})
            else:
                res["obligations"][-1]["verdict"] = "inconclusive"
        bad = []
        for i in range(n):
            for k in range(Kc):
                if not mask[i][k]:
                    g = G[i, k]
                    if isinstance(g, core.UndefinedValue) or core.to_rat(g).c != 0:
                        bad.append((i, k))
        o = {"name": tag + "/clipped-entries-zero-grad", "verdict": "unsat" if not bad else "sat", "how": "normal-form",
             "clipped": sum(1 for r in mask for b in r if not b)}
        wmodel = None
        if bad:
            v, wmodel = harness.reachable(pc, timeout_s=8.0)
            res["queries"] += 1
            if v == "sat":
                rep = {"label": label, "n": n, "K": Kc, "kind": "clip", "entries": bad, "model": {k: str(v) for k, v in wmodel.items() if k[0] in "pam"}}
                if replay(rep):
                    res["violations"].append({"signature": f"{PROP}:{_base(label)}:clip", "what": f"{label}: clipped entry has non-zero gradient", "replay": rep})
                else:
                    o["verdict"] = "inconclusive"
            else:
                o["verdict"] = "unsat" if v == "unsat" else "unknown"
        res["obligations"].append(o)
        if len(res["samples"]) < 1:
            res["samples"].append({"obligation": o["name"], "mask": mask, "verdict": o["verdict"]})
        # the derivative of the returned score w.r.t. the independent entries, with the clipping pattern of this path
        for i in range(n):
            for k in range(Kc - 1):
                x = st["base"][i][k]
                dS = diff.Differ(x.f[0][0], uf_grad=st["stub"].grad_table).drat(S)
                lhs = core.to_rat(G[i, k]) - core.to_rat(G[i, Kc - 1])
                o = harness.prove_zero(lhs - dS, pc, timeout_s=timeout_q, name=tag + f"/dS/dx[{i},{k}]==G[{i},{k}]-G[{i},{Kc - 1}]")
                if o.get("how", "").startswith("solver"):
                    res["queries"] += 1
                res["obligations"].append(_strip(o))
                if o["verdict"] == "sat":
                    o2 = dict(o)
                    rep = {"label": label, "n": n, "K": Kc, "kind": "grad-clipped", "model": {k: str(v) for k, v in (o.get("model") or {}).items() if k[0] in "pam"}}
                    if o.get("model") and replay(rep):
                        res["violations"].append({"signature": f"{PROP}:{_base(label)}:grad-with-clipped-entries",
                                                  "what": f"{label}: gradient of unclipped entries is not the derivative of the returned score when other entries are clipped (n={n},K={Kc})",
                                                  "replay": rep})
                    else:
                        res["obligations"][-1]["verdict"] = "inconclusive"
    if ex.truncated:
        res["obligations"].append({"name": f"{label}/clip/n{n}K{Kc}/exploration", "verdict": "unknown", "how": "path budget exhausted"})
    return res


def _path_error(res, err, pc, tag, label, n, Kc, kind, pattern=None):
    """the engine could not execute this path: concrete comparison at a witness of the path instead"""
    v, wmodel = harness.reachable(pc, timeout_s=10.0)
    if v == "unsat":
        return
    res["obligations"].append({"name": tag + "/path-error", "verdict": "inconclusive", "how": repr(err)[:200]})
    if v == "sat":
        rep = {"label": label, "n": n, "K": Kc, "kind": kind, "pattern": pattern, "model": {k: str(x) for k, x in wmodel.items() if k[0] in "pam"}}
        try:
            bad = replay(rep)
        except Exception as e:
            bad = True
            rep["exception"] = f"{type(e).__name__}: {e}"
        if bad:
            res["violations"].append({"signature": f"{PROP}:{_base(label)}:grad", "what": f"{label}: gradient is not the derivative of the score (concrete fallback, n={n},K={Kc})", "replay": rep})


def _base(label):
    return label.replace("reg:", "")


def _scalar(x):
    if isinstance(x, np.ndarray):
        x = x.reshape(-1)[0]
    return core.to_rat(x)


def _strip(o):
    return {k: v for k, v in o.items() if k != "model"}


def _report(res, label, n, Kc, o, what, tag, pc=None, pattern=None):
    model = o.get("model")
    if not model:
        res["obligations"][-1]["verdict"] = "inconclusive"
        return
    sig = f"{PROP}:{_base(label)}:{what}"
    if any(v["signature"] == sig for v in res["violations"]):
        return   # already reproduced on the real code for this objective in this job: the obligation stays 'sat'
    cands = [{k: str(v) for k, v in model.items() if k[0] in "pam"}]
    # the solver's point may be degenerate for the abstracted parts (transport plans, radicals): also try a few generic
    # points that satisfy the same path condition -- the obligation failed for the whole path, any of them may show it
    import random
    rng = random.Random(11)
    for _ in range(200):
        if len(cands) >= 30:
            break
        m = dict(cands[0])
        for i in range(n):
            # alternately concentrated around uniform and spread over the whole simplex (Dirichlet(1))
            w = [rng.uniform(0.05, 1.0) for _ in range(Kc)] if len(cands) % 2 else [max(1e-3, rng.expovariate(1.0)) for _ in range(Kc)]
            t = sum(w)
            for k in range(Kc - 1):
                m[f"p_{i}_{k}"] = str(Fraction(min(max(w[k] / t, 2e-3), 1 - 2e-3)).limit_denominator(1000))
        ok = harness.pc_holds(pc or [], {k: Fraction(v) for k, v in m.items()})
        if ok is True or (ok is None and not pc):
            cands.append(m)
    for m in cands:
        rep = {"label": label, "n": n, "K": Kc, "kind": "grad", "model": m, "pattern": pattern}
        if replay(rep):
            res["violations"].append({"signature": f"{PROP}:{_base(label)}:{what}", "what": f"{label}: {what} at n={n},K={Kc} ({o['name']})", "replay": rep})
            return
    res["obligations"][-1]["verdict"] = "inconclusive"


def _validate(label, n, Kc, kind, S, flatG, model):
    try:
        P, A = cg.concrete_inputs(model, n, Kc, kind)
        gem, _, _ = cg.build(label, symbolic=False)
        rs, rg = gem.evaluate(P, A, return_grad=True)
        env = harness.model_env(model)
        memo = {}
        ok = abs(float(rs) - core.eval_float(S, env, memo)) <= 1e-6 * max(1.0, abs(float(rs)))
        sg = np.array([core.eval_float(g, env, memo) for g in flatG]).reshape(n, Kc)
        ok = ok and np.allclose(sg, rg, rtol=1e-5, atol=1e-7)
        return bool(ok)
    except Exception:
        return None


def replay(rep, verbose=False):
    """central finite differences (float64, step chosen per entry) along simplex directions vs the returned gradient,
    on the REAL implementation."""
    label, n, Kc = rep["label"], rep["n"], rep["K"]
    gem, kind, ovo = cg.build(label, symbolic=False)
    model = {k: Fraction(v) for k, v in rep.get("model", {}).items()}
    P, A = cg.concrete_inputs(model, n, Kc, kind)
    pat = rep.get("pattern")
    if rep.get("kind") == "shape":
        if pat:
            A = None if A is None else A[np.ix_(pat, pat)]
            n = len(pat)
        S, G = gem.evaluate(np.full((n, Kc), 1.0 / Kc), None if A is None else A, return_grad=True)
        return tuple(np.shape(G)) != (n, Kc)
    if rep.get("kind") == "clip":
        S, G = gem.evaluate(P, A, return_grad=True)
        bad = [(i, k) for i, k in rep["entries"] if (P[i, k] <= gem.epsilon or P[i, k] >= 1 - gem.epsilon) and G[i][k] != 0]
        if verbose:
            print("P=", P.tolist(), "G=", np.asarray(G).tolist(), "clipped entries with non-zero gradient:", bad)
        return bool(bad)
    clipped_mode = rep.get("kind") == "grad-clipped"
    if not clipped_mode and (P.min() <= 1e-6 or P.max() >= 1 - 1e-6):
        return False
    if rep.get("affinity") is not None:
        cands_A = [np.asarray(rep["affinity"], dtype=float)]
    else:
        cands_A = cg.affinity_candidates(kind, n, A, extra=(40 if kind == "w" and n >= 3 else 0))
    for Ac in cands_A:
        if pat:
            bad = _replay_fd(gem, P[np.asarray(pat)], None if Ac is None else Ac[np.ix_(pat, pat)], len(pat), Kc, verbose, rows=sorted({0, len(pat) // 2, len(pat) - 1}))
            if bad:
                return True
            continue
        if clipped_mode:
            bad = _replay_clipped(gem, P, Ac, n, Kc, verbose)
        else:
            bad = _replay_fd(gem, P, Ac, n, Kc, verbose)
        if bad:
            if Ac is not None and kind == "w":
                rep["affinity"] = np.asarray(Ac).tolist()   # the cost matrix that exhibits it (recorded in the replay file)
            return True
    return False


def _replay_fd(gem, P, A, n, Kc, verbose, rows=None):
    with np.errstate(all="ignore"):
        S, G = gem.evaluate(P.copy(), A, return_grad=True)
    if not (np.isfinite(S) and np.all(np.isfinite(np.asarray(G, dtype=float)))):
        if verbose:
            print("non-finite score / gradient:", S, np.asarray(G).tolist(), "P", P.tolist(), "A", None if A is None else A.tolist())
        return True
    S0 = gem.evaluate(P.copy(), A, return_grad=False)
    if abs(float(S) - float(S0)) > 1e-9 * max(1.0, abs(float(S))):
        if verbose:
            print("score with grad", S, "without", S0)
        return True
    worst = 0.0
    for i in (range(n) if rows is None else rows):
        for k in range(Kc - 1):
            h = 1e-6 * min(P[i, k], P[i, Kc - 1], 1.0)
            Pp, Pm = P.copy(), P.copy()
            Pp[i, k] += h
            Pp[i, Kc - 1] -= h
            Pm[i, k] -= h
            Pm[i, Kc - 1] += h
            fd = (float(gem.evaluate(Pp, A)) - float(gem.evaluate(Pm, A))) / (2 * h)
            an = float(G[i][k] - G[i][Kc - 1])
            err = abs(fd - an) / max(1.0, abs(fd), abs(an))
            worst = max(worst, err)
            if verbose:
                print(f"row {i} dir e{k}-e{Kc - 1}: finite difference {fd:.9g} returned gradient {an:.9g}")
    return worst > 1e-4


def _replay_clipped(gem, P, A, n, Kc, verbose):
    """several looser epsilons (the property is stated for every epsilon; an error proportional to the clipped mass needs a coarse one)"""
    return any(_replay_clipped_eps(gem, P, A, n, Kc, verbose, eps) for eps in (1e-3, 0.02, 0.1))


def _replay_clipped_eps(gem, P, A, n, Kc, verbose, eps):
    """some entries of P are outside [eps, 1-eps]; for float64 to show the effect the model point is re-scaled so that
    clipped entries sit at 0 / 1 exactly and a looser epsilon is used."""
    lo0, hi0 = gem.epsilon, 1 - gem.epsilon
    low = P <= lo0
    high = P >= hi0
    Q = P.copy()
    Q[low] = eps / 4
    Q[high] = 1 - eps / 4
    # rows must still sum to one: rescale the unclipped entries
    for i in range(n):
        free = ~(low[i] | high[i])
        rest = 1.0 - Q[i][~free].sum()
        if free.any():
            if rest <= 0:
                return False
            Q[i][free] *= rest / Q[i][free].sum()
            if Q[i][free].min() <= 2 * eps or Q[i][free].max() >= 1 - 2 * eps:
                return False
    import inspect
    accepted = set(inspect.signature(type(gem).__init__).parameters)     # MI(epsilon=...) has no ovo argument
    g2 = type(gem)(**{k: v for k, v in gem.__dict__.items() if k in accepted and k != "epsilon"}, epsilon=eps)
    S, G = g2.evaluate(Q.copy(), A, return_grad=True)
    S0 = g2.evaluate(Q.copy(), A, return_grad=False)
    if abs(float(S) - float(S0)) > 1e-9 * max(1.0, abs(float(S0))):
        if verbose:
            print(f"epsilon={eps}: score with return_grad=True {float(S):.12g}, without {float(S0):.12g}; P=", Q.tolist())
        return True
    worst = 0.0
    for i in range(n):
        free = [k for k in range(Kc) if not (low[i, k] or high[i, k])]
        clipped = [k for k in range(Kc) if (low[i, k] or high[i, k])]
        # directions between two unclipped entries, and between an unclipped and a clipped entry (which stays clipped: the score
        # does not move with it and its gradient entry is zero, so the unclipped entry must carry the exact partial derivative)
        pairs = [(free[a], free[b]) for a in range(len(free)) for b in range(a + 1, len(free))] + [(ka, kc) for ka in free for kc in clipped]
        for ka, kb in pairs:
            if True:
                h = 1e-6 * min(Q[i, ka], Q[i, kb], 1 - Q[i, kb]) if kb in clipped else 1e-6 * min(Q[i, ka], Q[i, kb])
                Pp, Pm = Q.copy(), Q.copy()
                Pp[i, ka] += h
                Pp[i, kb] -= h
                Pm[i, ka] -= h
                Pm[i, kb] += h
                fd = (float(g2.evaluate(Pp, A)) - float(g2.evaluate(Pm, A))) / (2 * h)
                an = float(G[i][ka] - G[i][kb])
                worst = max(worst, abs(fd - an) / max(1.0, abs(fd), abs(an)))
                if verbose:
                    print(f"row {i} dir e{ka}-e{kb}: finite difference {fd:.9g} returned gradient {an:.9g}")
    return worst > 1e-4


# quick-tier trimming (measured on the idle 16-core box): these (objective, shape) pairs need minutes, not seconds
SLOW = {("H2-ovo", (3, 2)), ("H2-ovo", (2, 3)), ("MMD-ovo", (2, 3))}
SLOW_CLIP = {"H2-ova", "H2-ovo", "MMD-ovo"}


# measured in the thorough tier: these jobs do not finish within their 40-minute budget (Hellinger's nested radicals and the
# MMD-OvO pairwise radicals at the larger shapes); they are left out rather than left to time out.  Outside the claim.
OUT_OF_REACH = {"H2-ova/clip/n2K2", "H2-ova/clip/n2K3", "H2-ovo/n3K3", "H2-ovo/n4K2", "H2-ovo/clip/n2K3", "MMD-ovo/n3K3", "MMD-ovo/n4K2", "MMD-ovo/n2K4",
                "MMD-ovo/clip/n2K3", "long/H2-ova/N1031/rows3K2", "long/H2-ovo/N67/rows3K2", "long/H2-ovo/N131/rows3K2", "long/H2-ovo/N300/rows3K2",
                "long/H2-ovo/N1031/rows3K2", "long/MMD-ovo/N131/rows3K2"}


def jobs(tier):
    return [j for j in _jobs(tier) if j["name"] not in OUT_OF_REACH]


def _jobs(tier):
    shapes = QUICK_SHAPES if tier == "quick" else THOROUGH_SHAPES
    out = []
    q = tier == "quick"
    for lab in cg.CLASSES:
        for (n, Kc) in (shapes + ([(3, 3)] if q and lab.split("-")[0] in ("KL", "MI", "TV", "CHI2", "W") else [])):
            # (3,3): the smallest square shape beyond (2,2) -- an axis mix-up that coincides when n == K shows there (seconds for these classes)
            if q and (lab, (n, Kc)) in SLOW:
                continue
            out.append({"name": f"{lab}/n{n}K{Kc}", "target": "checks.c02:job",
                        "kwargs": dict(label=lab, n=n, Kc=Kc, timeout_q=(20.0 if q else 300.0)),
                        "timeout": (200 if q else 2400)})
        for (n, Kc) in [(2, 2), (2, 3)]:
            if q and (lab in SLOW_CLIP or (Kc == 3 and lab == "MMD-ova")):
                continue      # K = 3 (a row can be clipped to (eps, eps, 1-eps): clipped mass no longer sums to one) costs ~10 s for the others
            out.append({"name": f"{lab}/clip/n{n}K{Kc}", "target": "checks.c02:job_clip",
                        "kwargs": dict(label=lab, n=n, Kc=Kc, timeout_q=(15.0 if q else 120.0)),
                        "timeout": (200 if q else 2400)})
    for lab in cg.CLASSES:
        kind = cg.CLASSES[lab][2:][0]
        if kind == "w":
            continue
        for N in ([67, 300] if q else [67, 131, 300, 1031]):
            if kind == "mmd" and N > 131:
                continue
            if q and lab in ("H2-ovo", "MMD-ovo", "H2-ova"):
                continue   # minutes: thorough tier
            out.append({"name": f"long/{lab}/N{N}/rows3K2", "target": "checks.c02:job",
                        "kwargs": dict(label=lab, n=3, Kc=2, long_n=N, timeout_q=(20.0 if q else 300.0)), "timeout": (300 if q else 2400)})
    out.append({"name": "engine-selftest", "target": "symx.selftest:job", "kwargs": dict(n_cases=300 if tier == "quick" else 1500, seed=0), "timeout": 600})
    return out


def run(tier, seed, only=None, nproc=None):
    t0 = time.time()
    js = [j for j in jobs(tier) if not only or only in j["name"]]
    pairs = runner.run_jobs(js, nproc=nproc, seed=seed)
    return runner.finish(
        PROP, tier, seed, pairs, t0,
        assumptions=["P on the open simplex (rows sum to 1 by substitution of the last column); differentiability region: "
                     "TV differences != 0, MMD squared distances != 0 (ties excluded from decisions)",
                     "Wasserstein: unique dual optimum, d cost = sum u da + sum v db (envelope theorem) for the stubbed ot.emd2",
                     "exact real arithmetic"],
        bounds={"shapes(n,K)": QUICK_SHAPES if tier == "quick" else THOROUGH_SHAPES, "objectives": list(cg.CLASSES),
                "out of reach (not run)": sorted(OUT_OF_REACH),
                "long inputs": "N in {67, 300} (quick; Hellinger and MMD-ovo in thorough, +131, 1031) rows from 3 distinct symbolic rows, the last position holding a row of its own",
                "clip job": "P in [0,1]^(n x K) rows summing to 1, all clipping patterns explored by forking"},
        stubs=["ot.emd2 -> uninterpreted (cost,u,v) with differential sum u da + sum v db"])
