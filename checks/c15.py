"""C15 -- Douglas: masked features inert, valid soft bins, active points as defined.

mask     : real _init_params with every feature mask of d<=3 (RNG stub: symbolic normal draws), then real _infer(X) vs
           _infer(X') where X' differs in a masked column only: identical terms; leaf count == (n_cuts+1)^(#used features)
bins     : every _leaf_binning row and every merged leaf row is a probability vector for symbolic temperature > 0
cell     : for symbolic cut points in ANY order and a symbolic value x (different from every cut), the arg-max bin of the real
           _leaf_binning equals #{cut < x}   (exp monotone; the T -> 0 limit of a soft-max being its arg-max is taken as given)
active   : real find_active_points on symbolic cut points (any order) and a symbolic data column: feature listed  <=>
           some cut point lies strictly between min and max of the column
"""
from __future__ import annotations

import itertools
import time
from fractions import Fraction

import numpy as np
import z3

from symx import core, harness, loader, runner
from symx.core import K, to_rat
from symx.explore import Explorer, PathError
from . import common_models as cm

PROP = "C15"


def _new():
    return {"paths": 0, "queries": 0, "obligations": [], "violations": [], "validated": 0, "witnesses": 0, "samples": []}


def _douglas(n_cuts, Kc=2, mask=None, **kw):
    mod = loader.load("tree.douglas")
    mod.check_array = lambda a, **k: a
    mod.check_is_fitted = lambda est, *a, **k: None
    mdl = mod.Douglas(n_clusters=Kc, n_cuts=n_cuts, feature_mask=mask, **kw)
    return mdl, mod


class _Rng:
    def __init__(self):
        self.c = 0

    def normal(self, loc=0.0, scale=1.0, size=None):
        self.c += 1
        size = (size,) if isinstance(size, int) else tuple(size)
        a = np.empty(size, dtype=object)
        for idx in np.ndindex(*size):
            a[idx] = core.var(f"r{self.c}_" + "_".join(map(str, idx)))
        return a


def job_mask(d, n_cuts, n=2, mask_dtype="bool"):
    """mask_dtype: how the 0/1 mask is handed over -- 'bool' array, 'int' array (accepted by validation, used by truthiness),
    'list' of Python bools"""
    loader.install()
    res = _new()
    mk = {"bool": lambda b: np.array(b), "int": lambda b: np.array(b).astype(int), "list": lambda b: [bool(x) for x in b]}[mask_dtype]
    for mask_bits in itertools.product([True, False], repeat=d):
        if not any(mask_bits):
            continue
        box = {}

        def setup():
            core.CTX.strict = True
            mdl, mod = _douglas(n_cuts, mask=mk(mask_bits))
            mdl.temperature = core.var("T", "+")
            X = harness.free_matrix(n, d, "x")
            mdl._init_params(_Rng(), X)
            box["mdl"] = mdl
            return mdl, X

        def body(arg):
            mdl, X = arg
            P = mdl._infer(X, retain=False)
            outs = []
            for f in range(d):
                if not mask_bits[f]:
                    X2 = X.copy()
                    for i in range(n):
                        X2[i, f] = core.var(f"y_{i}_{f}")
                    outs.append((f, mdl._infer(X2, retain=False)))
            return P, outs

        ex = Explorer(max_paths=3000)
        tagbase = f"mask/d{d}c{n_cuts}/{''.join('1' if b else '0' for b in mask_bits)}" + ("" if mask_dtype == "bool" else f"/{mask_dtype}")
        first = True
        for out, pc, trace in ex.run(body, setup):
            res["paths"] += 1
            tag = f"{tagbase}/path{res['paths']}"
            if isinstance(out, PathError):
                res["obligations"].append({"name": tag + "/path-error", "verdict": "inconclusive", "how": repr(out)[:300]})
                continue
            mdl = box["mdl"]
            P, outs = out
            used = sum(mask_bits)
            okl = mdl.leaf_scores_.shape[0] == (n_cuts + 1) ** used and len(mdl.cut_points_list_) == used and \
                [i for i, _ in mdl.cut_points_list_] == [f for f in range(d) if mask_bits[f]]
            if first:
                res["obligations"].append({"name": tagbase + "/leaves == (n_cuts+1)^used, cut points only for used features", "verdict": "unsat" if okl else "sat", "how": "syntactic"})
                if not okl:
                    res["violations"].append({"signature": f"{PROP}:mask:leaf-count", "what": "Douglas uses a wrong number of leaves / cut-point sets for the feature mask",
                                              "replay": {"kind": "mask", "d": d, "n_cuts": n_cuts, "mask": list(mask_bits), "mask_dtype": mask_dtype, "model": {}}})
                first = False
            for f, P2 in outs:
                same = all(to_rat(a).key() == to_rat(b).key() for a, b in zip(np.asarray(P).reshape(-1), np.asarray(P2).reshape(-1)))
                o = {"name": f"{tag}/changing masked feature {f} leaves predictions unchanged", "verdict": "unsat" if same else "sat", "how": "normal-form"}
                res["obligations"].append(o)
                if not same:
                    v, model = harness.reachable(pc, timeout_s=8.0)
                    res["queries"] += 1
                    rep = {"kind": "mask", "d": d, "n_cuts": n_cuts, "mask": list(mask_bits), "mask_dtype": mask_dtype, "feature": f, "model": {k: str(x) for k, x in (model or {}).items() if "!" not in k}}
                    if v == "sat" and replay(rep):
                        res["violations"].append({"signature": f"{PROP}:mask:not-inert", "what": f"a feature excluded by feature_mask changes the predictions", "replay": rep})
                    else:
                        o["verdict"] = "inconclusive"
        if ex.truncated:
            res["obligations"].append({"name": tagbase + "/exploration", "verdict": "unknown", "how": "path budget exhausted"})
    res["samples"].append({"masks": 2 ** d - 1, "d": d, "n_cuts": n_cuts})
    return res


def job_bins(d, n_cuts, n=1, timeout_q=15.0):
    loader.install()
    res = _new()
    box = {}

    def setup():
        core.CTX.strict = True
        mdl, mod = _douglas(n_cuts)
        mdl.temperature = core.var("T", "+")
        X = harness.free_matrix(n, d, "x")
        mdl._init_params(_Rng(), X)
        box["mdl"] = mdl
        return mdl, X

    def body(arg):
        mdl, X = arg
        P = mdl._infer(X, retain=True)
        return mdl._all_binnings, mdl._leaf, P

    ex = Explorer(max_paths=3000)
    for out, pc, trace in ex.run(body, setup):
        res["paths"] += 1
        tag = f"bins/d{d}c{n_cuts}/path{res['paths']}"
        if isinstance(out, PathError):
            res["obligations"].append({"name": tag + "/path-error", "verdict": "inconclusive", "how": repr(out)[:300]})
            continue
        binnings, leaf, P = out
        arrays = [(f"binning[{i}]", b) for i, b in enumerate(binnings)] + [("merged leaf", leaf), ("prediction", P)]
        for nm, arr in arrays:
            arr = np.asarray(arr, dtype=object)
            for r in range(arr.shape[0]):
                tot = core.add_many([to_rat(x) for x in arr[r]])
                o = harness.prove_zero(tot - 1, pc, timeout_s=timeout_q, name=f"{tag}/{nm} row {r} sums to 1")
                res["obligations"].append({k: v for k, v in o.items() if k != "model"})
                pos = all(core.compare0(to_rat(x), ">") is True for x in arr[r])
                res["obligations"].append({"name": f"{tag}/{nm} row {r} entries > 0", "verdict": "unsat" if pos else "unknown", "how": "syntactic-sign"})
                if o["verdict"] == "sat":
                    rep = {"kind": "bins", "d": d, "n_cuts": n_cuts, "model": {k: str(x) for k, x in (o.get("model") or {}).items() if "!" not in k}}
                    if o.get("model") and replay(rep):
                        res["violations"].append({"signature": f"{PROP}:bins:{nm.split('[')[0]}", "what": f"Douglas {nm} rows are not probability vectors", "replay": rep})
                    else:
                        res["obligations"][-2]["verdict"] = "inconclusive"
    return res


def job_cell(n_cuts, timeout_q=15.0):
    loader.install()
    res = _new()
    box = {}

    def setup():
        mdl, mod = _douglas(n_cuts)
        mdl.temperature = core.var("T", "+")
        cuts = np.empty(n_cuts, dtype=object)
        for i in range(n_cuts):
            cuts[i] = core.var(f"c_{i}")
        x = core.var("x")
        box.update(mdl=mdl, cuts=cuts, x=x)
        return mdl, cuts, x

    def body(arg):
        mdl, cuts, x = arg
        X = np.empty((1, 1), dtype=object)
        X[0, 0] = x
        probs, order = mdl._leaf_binning(X, cuts)
        below = 0
        for i in range(n_cuts):
            b = cuts[i] < x
            if bool(b):
                below += 1
            else:
                # x differs from every cut
                if bool(cuts[i] == x):
                    return None
        return probs, below

    ex = Explorer(max_paths=5000)
    for out, pc, trace in ex.run(body, setup):
        if out is None:
            continue
        res["paths"] += 1
        tag = f"cell/c{n_cuts}/path{res['paths']}"
        if isinstance(out, PathError):
            res["obligations"].append({"name": tag + "/path-error", "verdict": "inconclusive", "how": repr(out)[:300]})
            continue
        probs, below = out
        probs = np.asarray(probs, dtype=object).reshape(-1)
        pc = list(ex.pc)
        for j in range(len(probs)):
            if j == below:
                continue
            b = to_rat(probs[below]) > to_rat(probs[j])
            o = harness.prove(b, pc, timeout_s=timeout_q, name=f"{tag}/bin #{{cut<x}}={below} beats bin {j}", exp_monotone=True,
                              fids=harness.all_factors([to_rat(probs[below]), to_rat(probs[j])]))
            res["queries"] += 1
            res["obligations"].append({k: v for k, v in o.items() if k != "model"})
            if o["verdict"] == "sat":
                rep = {"kind": "cell", "n_cuts": n_cuts, "model": {k: str(x) for k, x in (o.get("model") or {}).items() if "!" not in k}}
                if o.get("model") and replay(rep):
                    res["violations"].append({"signature": f"{PROP}:cell", "what": "the arg-max soft bin of a value is not the number of cut points below it", "replay": rep})
                else:
                    res["obligations"][-1]["verdict"] = "inconclusive"
        if len(res["samples"]) < 1:
            res["samples"].append({"obligation": tag, "below": below, "pc_size": len(pc)})
    return res


def job_active(n_cuts, rows, d=1):
    loader.install()
    res = _new()
    box = {}

    def setup():
        mdl, mod = _douglas(n_cuts)
        cuts = [np.array([core.var(f"c_{f}_{i}") for i in range(n_cuts)], dtype=object) for f in range(d)]
        mdl.cut_points_list_ = [(f, cuts[f]) for f in range(d)]
        mdl.leaf_scores_ = np.zeros(((n_cuts + 1) ** d, 2))
        X = harness.free_matrix(rows, d, "x")
        box.update(mdl=mdl, cuts=cuts, X=X)
        return mdl, X

    def body(arg):
        mdl, X = arg
        got = list(mdl.find_active_points(X))
        want = []
        for f in range(d):
            col = [X[i, f] for i in range(rows)]
            active = False
            for c in box["cuts"][f]:
                above_min = any(bool(v < c) for v in col)      # min(col) < c
                below_max = any(bool(c < v) for v in col)      # c < max(col)
                if above_min and below_max:
                    active = True
            if active:
                want.append(f)
        return got, want

    ex = Explorer(max_paths=20000, max_depth=300)
    seen = False
    for out, pc, trace in ex.run(body, setup):
        res["paths"] += 1
        tag = f"active/c{n_cuts}r{rows}d{d}/path{res['paths']}"
        if isinstance(out, PathError):
            res["obligations"].append({"name": tag + "/path-error", "verdict": "inconclusive", "how": repr(out)[:300]})
            continue
        got, want = out
        ok = [int(g) for g in got] == want
        o = {"name": tag + "/listed <=> a cut strictly inside the data range", "verdict": "unsat" if ok else "sat", "how": "path-evaluation"}
        res["obligations"].append(o)
        if not ok:
            v, model = harness.reachable(list(ex.pc), timeout_s=8.0)
            res["queries"] += 1
            rep = {"kind": "active", "n_cuts": n_cuts, "rows": rows, "d": d, "model": {k: str(x) for k, x in (model or {}).items()}}
            if v == "sat" and replay(rep):
                if not seen:
                    seen = True
                    res["violations"].append({"signature": f"{PROP}:find_active_points", "what": "find_active_points lists a feature with no cut point strictly inside its data range (or misses one)", "replay": rep})
            elif v == "unsat":
                o["verdict"] = "unsat"
            else:
                o["verdict"] = "inconclusive"
        if len(res["samples"]) < 1:
            res["samples"].append({"obligation": tag, "got": [int(g) for g in got], "want": want})
    if ex.truncated:
        res["obligations"].append({"name": f"active/c{n_cuts}r{rows}/exploration", "verdict": "unknown", "how": "path budget exhausted"})
    return res


def job_dtype():
    """CONCRETE witness: a fitted Douglas model gives integer-stored data the probabilities it gives the same values stored as floats
    (the soft-binning offsets must not inherit the dtype of the data)"""
    res = _new()
    rep_ = {"kind": "dtype"}
    bad = replay(rep_)
    res["paths"] = 1
    res["obligations"].append({"name": "dtype: predict_proba(integer array) == predict_proba(the same values as floats), for n_cuts 1..3 and a mask", "verdict": "sat" if bad else "unsat", "how": "concrete float64 run"})
    if bad:
        res["violations"].append({"signature": f"{PROP}:dtype", "what": "Douglas: predictions on integer-stored data differ from those on the same values stored as floats", "replay": rep_})
    return res


def replay(rep, verbose=False):
    if rep.get("kind") == "dtype":
        dgm = loader.real("tree.douglas")
        rs = np.random.RandomState(2)
        Xf = rs.randint(-6, 7, size=(40, 3)).astype(float)
        for n_cuts, mask in [(1, None), (2, None), (3, np.array([True, False, True]))]:
            m = dgm.Douglas(n_clusters=3, n_cuts=n_cuts, feature_mask=mask, gemini="mi", max_iter=5, random_state=1).fit(Xf + rs.normal(size=Xf.shape) * 0.3)
            for dt in (np.int64, np.int32, np.float32):
                Pi, Pf = m.predict_proba(Xf.astype(dt)), m.predict_proba(Xf)
                tol = 1e-9 if dt != np.float32 else 1e-3
                if not np.allclose(Pi, Pf, rtol=0, atol=tol):
                    if verbose:
                        print("n_cuts", n_cuts, "dtype", dt.__name__, "max |difference|", float(np.abs(Pi - Pf).max()))
                    return True
        return False
    mod = loader.real("tree.douglas")
    model = {k: float(Fraction(v)) for k, v in rep.get("model", {}).items()}
    kind = rep["kind"]
    if kind == "active":
        n_cuts, rows, d = rep["n_cuts"], rep["rows"], rep["d"]
        mdl = mod.Douglas(n_clusters=2, n_cuts=n_cuts)
        cuts = [np.array([model.get(f"c_{f}_{i}", 0.0) for i in range(n_cuts)]) for f in range(d)]
        mdl.cut_points_list_ = [(f, cuts[f]) for f in range(d)]
        mdl.leaf_scores_ = np.zeros(((n_cuts + 1) ** d, 2))
        X = np.array([[model.get(f"x_{i}_{f}", 0.0) for f in range(d)] for i in range(rows)])
        got = [int(g) for g in mdl.find_active_points(X)]
        want = [f for f in range(d) if any(X[:, f].min() < c < X[:, f].max() for c in cuts[f])]
        if verbose:
            print("cuts", [c.tolist() for c in cuts], "data", X.tolist(), "find_active_points ->", got, "definition ->", want)
        return got != want
    if kind == "cell":
        n_cuts = rep["n_cuts"]
        mdl = mod.Douglas(n_clusters=2, n_cuts=n_cuts, temperature=max(model.get("T", 0.5), 1e-3))
        cuts = np.array([model.get(f"c_{i}", float(i)) for i in range(n_cuts)])
        x = model.get("x", 0.0)
        probs, order = mdl._leaf_binning(np.array([[x]]), cuts)
        below = int((cuts < x).sum())
        if verbose:
            print("cuts", cuts.tolist(), "x", x, "bins", probs.tolist(), "expected arg-max", below)
        return int(np.argmax(probs[0])) != below and x not in cuts
    if kind == "mask":
        d, n_cuts, mask = rep["d"], rep["n_cuts"], np.array(rep["mask"])
        rng = np.random.RandomState(0)
        given = {"bool": mask, "int": mask.astype(int), "list": [bool(x) for x in mask]}[rep.get("mask_dtype", "bool")]
        mdl = mod.Douglas(n_clusters=2, n_cuts=n_cuts, feature_mask=given, temperature=0.7)
        X = rng.normal(size=(3, d))
        mdl._init_params(rng, X)
        if mdl.leaf_scores_.shape[0] != (n_cuts + 1) ** int(mask.sum()):
            return True
        P = mdl._infer(X, retain=False)
        for f in range(d):
            if not mask[f]:
                X2 = X.copy()
                X2[:, f] += rng.normal(size=3) * 3
                if not np.allclose(P, mdl._infer(X2, retain=False), rtol=1e-9, atol=1e-12):
                    return True
        return False
    if kind == "bins":
        d, n_cuts = rep["d"], rep["n_cuts"]
        rng = np.random.RandomState(1)
        mdl = mod.Douglas(n_clusters=2, n_cuts=n_cuts, temperature=max(model.get("T", 0.5), 1e-2))
        X = rng.normal(size=(2, d))
        mdl._init_params(rng, X)
        mdl._infer(X, retain=True)
        ok = all(np.allclose(b.sum(1), 1) and (b > 0).all() for b in mdl._all_binnings) and np.allclose(mdl._leaf.sum(1), 1)
        return not ok
    raise ValueError(kind)


def jobs(tier):
    q = tier == "quick"
    out = []
    for d, c in ([(2, 1), (3, 1), (2, 2)] if q else [(2, 1), (3, 1), (2, 2), (3, 2), (2, 3)]):
        out.append({"name": f"mask/d{d}c{c}", "target": "checks.c15:job_mask", "kwargs": dict(d=d, n_cuts=c), "timeout": 280 if q else 1800})
        if (d, c) in ((3, 1), (2, 2)):
            for dt in ("int", "list"):
                out.append({"name": f"mask/d{d}c{c}/{dt}", "target": "checks.c15:job_mask", "kwargs": dict(d=d, n_cuts=c, mask_dtype=dt), "timeout": 280 if q else 1800})
    out.append({"name": "dtype", "target": "checks.c15:job_dtype", "kwargs": {}, "timeout": 200})
    for d, c in ([(1, 1), (1, 2), (2, 1)] if q else [(1, 1), (1, 2), (2, 1), (2, 2), (1, 3)]):
        out.append({"name": f"bins/d{d}c{c}", "target": "checks.c15:job_bins", "kwargs": dict(d=d, n_cuts=c), "timeout": 280 if q else 1800})
    for c in ([1, 2, 3] if q else [1, 2, 3, 4]):
        out.append({"name": f"cell/c{c}", "target": "checks.c15:job_cell", "kwargs": dict(n_cuts=c), "timeout": 280 if q else 1800})
    for c, r in ([(1, 2), (2, 2), (2, 3), (3, 2)] if q else [(1, 2), (2, 2), (2, 3), (3, 2), (3, 3), (1, 3)]):
        out.append({"name": f"active/c{c}r{r}", "target": "checks.c15:job_active", "kwargs": dict(n_cuts=c, rows=r), "timeout": 280 if q else 1800})
    out.append({"name": "active/c2r2d2", "target": "checks.c15:job_active", "kwargs": dict(n_cuts=2, rows=2, d=2), "timeout": 280 if q else 1800})
    return out


def run(tier, seed, only=None, nproc=None):
    t0 = time.time()
    js = [j for j in jobs(tier) if not only or only in j["name"]]
    pairs = runner.run_jobs(js, nproc=nproc, seed=seed)
    return runner.finish(
        PROP, tier, seed, pairs, t0,
        assumptions=["exact reals; sklearn softmax replaced by its exp contract; exp strictly monotone (axiom instances)",
                     "the T -> 0 limit of a soft-max being the indicator of its arg-max is taken as given",
                     "cell rule: the value differs from every cut point; cut points distinct (ties excluded by strict mode in mask/bins)"],
        bounds={"tier": tier, "jobs": [j["name"] for j in js]})
