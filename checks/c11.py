"""C11 -- kernel, metric and GEMINI choices are forwarded faithfully; precomputed = named.

``pairwise_kernels`` / ``pairwise_distances`` are replaced by RECORDING uninterpreted functions: the result is a fresh
symbolic symmetric matrix keyed by (kind, metric name, parameters, identity of the data arguments).
 gemini   : for every estimator exposing kernel / metric / ovo / gemini / base_kernel (enumerated) x names x parameter
            dictionaries x callable x precomputed:  get_gemini() is the documented class with the estimator's ovo flag and
            affinity settings; compute_affinity(X, y) returns the uninterpreted value of exactly (name, params, X), the
            callable's own output, or y; a missing precomputed matrix raises; gemini=None / name / instance resolve as documented
 kernels  : KernelRIM._compute_kernel and Kauri._compute_kernel forward (data, stored data, name, params) / use y / raise
 same-fit : the one-epoch symbolic fit, score and Kauri's split search receive IDENTICAL terms whether the kernel is named
            (value A of the uninterpreted function) or passed as a precomputed matrix equal to A
"""
from __future__ import annotations

import itertools
import time
import warnings

import numpy as np

from symx import core, harness, loader, runner
from symx.core import to_rat
from symx.explore import Explorer, PathError
from . import common_models as cm

PROP = "C11"


def _new():
    return {"paths": 0, "queries": 0, "obligations": [], "violations": [], "validated": 0, "witnesses": 0, "samples": []}


class Rec:
    """recording uninterpreted pairwise_kernels / pairwise_distances"""

    def __init__(self):
        self.calls = []
        self.table = {}

    def make(self, what):
        def f(X, Y=None, metric=("linear" if what == "kernel" else "euclidean"), **params):
            key = (what, metric if isinstance(metric, str) else ("callable", id(metric)), tuple(sorted((k, repr(v)) for k, v in params.items())), id(X), None if Y is None else id(Y))
            if key not in self.table:
                n = len(X)
                tag = f"{what[0]}{len(self.table)}"
                self.table[key] = harness.symmetric_matrix(n, tag) if Y is None or len(Y) == n else harness.free_matrix(n, len(Y), tag)
            self.calls.append({"what": what, "metric": metric, "params": dict(params), "X": X, "Y": Y, "value": self.table[key]})
            return self.table[key]
        return f


def _install(rec):
    for name in ("gemini._geomdistances", "linear._linear_geminis", "tree.kauri"):
        m = loader.load(name)
        if hasattr(m, "pairwise_kernels"):
            m.pairwise_kernels = rec.make("kernel")
        if hasattr(m, "pairwise_distances"):
            m.pairwise_distances = rec.make("distance")
        if hasattr(m, "check_array"):
            m.check_array = lambda a, **kw: a
        if hasattr(m, "check_is_fitted"):
            m.check_is_fitted = lambda est, *a, **kw: None


MMD_EST = [("linear._linear_geminis", "LinearMMD"), ("mlp._mlp_geminis", "MLPMMD"), ("sparse._linear_sparse", "SparseLinearMMD"), ("sparse._mlp_sparse", "SparseMLPMMD"),
           ("nonparametric._categorical_models", "CategoricalMMD")]
W_EST = [("linear._linear_geminis", "LinearWasserstein"), ("mlp._mlp_geminis", "MLPWasserstein"), ("nonparametric._categorical_models", "CategoricalWasserstein")]
GENERIC = [("linear._linear_geminis", "LinearModel"), ("mlp._mlp_geminis", "MLPModel"), ("sparse._linear_sparse", "SparseLinearModel"), ("sparse._mlp_sparse", "SparseMLPModel"),
           ("nonparametric._categorical_models", "CategoricalModel"), ("tree.douglas", "Douglas")]
REG = {"mmd_ova": ("MMDGEMINI", False), "mmd_ovo": ("MMDGEMINI", True), "wasserstein_ova": ("WassersteinGEMINI", False), "wasserstein_ovo": ("WassersteinGEMINI", True),
       "kl_ova": ("KLGEMINI", False), "kl_ovo": ("KLGEMINI", True), "mi": ("KLGEMINI", False), "tv_ova": ("TVGEMINI", False), "tv_ovo": ("TVGEMINI", True),
       "hellinger_ova": ("HellingerGEMINI", False), "hellinger_ovo": ("HellingerGEMINI", True), "chi2_ova": ("ChiSquareGEMINI", False), "chi2_ovo": ("ChiSquareGEMINI", True)}


def job_gemini():
    loader.install()
    res = _new()
    rec = Rec()
    core.reset()
    _install(rec)
    gm = loader.load("gemini")
    X = harness.free_matrix(3, 2, "x")
    Ymat = harness.symmetric_matrix(3, "pre")
    checks = []

    def isclass(g, cname):
        return type(g).__name__ == cname or any(b.__name__ == cname for b in type(g).__mro__)
    the_callable = lambda A: np.asarray(A, dtype=object) @ np.asarray(A, dtype=object).T
    for (modn, cname), which in [(e, "mmd") for e in MMD_EST] + [(e, "w") for e in W_EST]:
        cls = getattr(loader.load(modn), cname)
        attr, pattr, gcls, what = ("kernel", "kernel_params", "MMDGEMINI", "kernel") if which == "mmd" else ("metric", "metric_params", "WassersteinGEMINI", "distance")
        names = (["linear", "rbf", "sigmoid"] if which == "mmd" else ["euclidean", "cosine", "manhattan"])
        import copy
        for ovo in (False, True):
            # parameter values that are falsy (0, 0.0, False) are values like any other: they must be forwarded, not dropped
            cases = [(names[0], None), (names[1], {"gamma": 0.5}), (names[2], {"coef0": 2.0, "gamma": 3.0}), (names[2], {"coef0": 0, "gamma": 0.0, "degree": 3})] if which == "mmd" else \
                    [(names[0], None), (names[0], {"squared": True}), (names[0], {"squared": False}), (names[1], None), (names[2], None)]
            for nm, params in cases:
                try:
                    est = cls(**{attr: nm, pattr: params, "ovo": ovo})
                    before = copy.deepcopy(params)
                    g = est.get_gemini()
                    ok = isclass(g, gcls) and g.ovo is ovo and getattr(g, attr) == nm and getattr(g, pattr) == params
                    checks.append((f"{cname}({attr}={nm!r}, {pattr}={params}, ovo={ovo}).get_gemini() is {gcls} with the same settings", ok, f"{cname}:get_gemini"))
                    ok2 = True
                    for rep_ in range(2):         # evaluated twice: the second evaluation must forward exactly the same parameters
                        n0 = len(rec.calls)
                        A = est.get_gemini().compute_affinity(X, None)
                        c = rec.calls[n0:]
                        ok2 = ok2 and len(c) == 1 and c[0]["what"] == what and c[0]["metric"] == nm and c[0]["params"] == (before or {}) and c[0]["X"] is X and c[0]["Y"] is None and A is c[0]["value"]
                    ok2 = ok2 and getattr(est, pattr) == before and est.get_params()[pattr] == before
                    checks.append((f"{cname}({nm!r}, {params}).compute_affinity(X) is pairwise_{what}s(X, metric={nm!r}, **params), on every evaluation, parameters left untouched", ok2, f"{cname}:affinity-named"))
                except Exception as e:
                    checks.append((f"{cname}({nm!r}, {params}): forwarding could not be executed symbolically ({type(e).__name__})", False, f"{cname}:affinity-named"))
            # hyper-parameters changed with set_params between two uses of the same object
            try:
                p1 = {"gamma": 0.5} if which == "mmd" else {"squared": True}
                p2 = {"gamma": 2.0} if which == "mmd" else None
                est = cls(**{attr: names[1] if which == "mmd" else names[0], pattr: p1, "ovo": ovo})
                est.get_gemini().compute_affinity(X, None)
                est.set_params(**{pattr: p2})
                g = est.get_gemini()
                n0 = len(rec.calls)
                g.compute_affinity(X, None)
                c = rec.calls[n0:]
                oks = getattr(g, pattr) == p2 and len(c) == 1 and c[0]["params"] == (p2 or {})
                est.set_params(ovo=not ovo)
                oks = oks and est.get_gemini().ovo is (not ovo)
                est.set_params(**{attr: names[2]})
                g = est.get_gemini()
                n0 = len(rec.calls)
                g.compute_affinity(X, None)
                c = rec.calls[n0:]
                oks = oks and getattr(g, attr) == names[2] and len(c) == 1 and c[0]["metric"] == names[2]
            except Exception:
                oks = False
            checks.append((f"{cname}: set_params({pattr} / ovo / {attr}) between two uses is honoured by get_gemini and compute_affinity", oks, f"{cname}:set_params"))
            # precomputed
            est = cls(**{attr: "precomputed", "ovo": ovo})
            g = est.get_gemini()
            n0 = len(rec.calls)
            A = g.compute_affinity(X, Ymat)
            checks.append((f"{cname}(precomputed).compute_affinity(X, y) is y (no kernel computed)", A is Ymat and len(rec.calls) == n0, f"{cname}:affinity-precomputed"))
            try:
                g.compute_affinity(X, None)
                raised = False
            except ValueError:
                raised = True
            checks.append((f"{cname}(precomputed) without a matrix raises", raised, f"{cname}:precomputed-missing"))
            if which == "mmd" or True:
                try:
                    est = cls(**{attr: the_callable, "ovo": ovo})
                    g = est.get_gemini()
                    n0 = len(rec.calls)
                    with warnings.catch_warnings():
                        warnings.simplefilter("ignore")
                        A = g.compute_affinity(X, None)
                    exp = the_callable(X)
                    okc = len(rec.calls) == n0 and all(to_rat(a).key() == to_rat(b).key() for a, b in zip(np.asarray(A, dtype=object).reshape(-1), exp.reshape(-1)))
                except Exception as e:
                    okc = which == "w"     # WassersteinGEMINI documents names only; a callable metric being refused is not judged
                checks.append((f"{cname}(callable).compute_affinity(X) is the callable's output", okc, f"{cname}:affinity-callable"))
    # convenience estimators
    lin = loader.load("linear._linear_geminis")
    sp = loader.load("sparse._linear_sparse")
    for est, nm in [(lin.RIM(), "RIM"), (lin.KernelRIM(), "KernelRIM"), (sp.SparseLinearMI(), "SparseLinearMI")]:
        g = est.get_gemini()
        checks.append((f"{nm} trains with the mutual information (KL one-vs-all)", isclass(g, "KLGEMINI") and g.ovo is False and g.compute_affinity(X, None) is None, f"{nm}:get_gemini"))
    # gemini = None / name / instance on the generic estimators
    for modn, cname in GENERIC:
        cls = getattr(loader.load(modn), cname)
        g = cls(gemini=None).get_gemini()
        checks.append((f"{cname}(gemini=None) is MMD one-vs-all with the linear kernel", isclass(g, "MMDGEMINI") and g.ovo is False and g.kernel == "linear" and g.kernel_params is None, f"{cname}:gemini-None"))
        for name, (gc, ovo) in REG.items():
            g = cls(gemini=name).get_gemini()
            okn = isclass(g, gc) and g.ovo is ovo
            if gc == "MMDGEMINI":
                okn = okn and g.kernel == "linear"
            if gc == "WassersteinGEMINI":
                okn = okn and g.metric == "euclidean"
            checks.append((f"{cname}(gemini={name!r}) is {gc}(ovo={ovo})", okn, f"{cname}:gemini-name"))
        inst = gm.MMDGEMINI(ovo=True, kernel="rbf", kernel_params={"gamma": 2.0})
        checks.append((f"{cname}(gemini=<instance>) uses that very instance", cls(gemini=inst).get_gemini() is inst, f"{cname}:gemini-instance"))
    return _finish_checks(res, checks, "gemini")


def job_precomputed_dtype():
    """CONCRETE witness: with kernel / metric 'precomputed' the affinity used is the user's matrix itself, whatever the dtype of the data
    (integer counts, booleans, float32) -- through compute_affinity and through an estimator's score"""
    res = _new()
    gm = loader.real("gemini")
    lin = loader.real("linear._linear_geminis")
    rs = np.random.RandomState(1)
    Kf = rs.uniform(0.05, 0.95, size=(6, 6))
    Kf = (Kf + Kf.T) / 2
    np.fill_diagonal(Kf, 0.0)
    for dt in ("int64", "int32", "bool", "float32", "float64"):
        Xd = (rs.poisson(3.0, size=(6, 2)) > (2 if dt == "bool" else -1)).astype(dt) if dt == "bool" else rs.poisson(3.0, size=(6, 2)).astype(dt)
        for cname, g in (("MMDGEMINI", gm.MMDGEMINI(kernel="precomputed")), ("WassersteinGEMINI", gm.WassersteinGEMINI(metric="precomputed"))):
            res["paths"] += 1
            A = g.compute_affinity(Xd, Kf)
            ok = isinstance(A, np.ndarray) and A.shape == Kf.shape and np.array_equal(np.asarray(A, dtype=float), Kf)
            res["obligations"].append({"name": f"precomputed-dtype/{cname}.compute_affinity(X of dtype {dt}, K) is K", "verdict": "unsat" if ok else "sat", "how": "concrete run"})
            if not ok and not any(v["signature"].endswith(cname + ":precomputed-dtype") for v in res["violations"]):
                res["violations"].append({"signature": f"{PROP}:{cname}:precomputed-dtype", "what": f"{cname}(precomputed).compute_affinity alters the user's matrix when the data have dtype {dt}",
                                          "replay": {"kind": "precomputed-dtype", "cls": cname, "dtype": dt}})
    res["samples"].append({"dtypes": 5})
    return res


def job_score_named_ignores_y():
    """CONCRETE witness: with a NAMED kernel / metric (or a callable, or a GEMINI given by name or instance) the affinity is computed from
    the data; a matrix passed as y to score() is not used -- score(X, M) == score(X) for any square M"""
    res = _new()
    lin = loader.real("linear._linear_geminis")
    mlp = loader.real("mlp._mlp_geminis")
    gm = loader.real("gemini")
    rs = np.random.RandomState(2)
    X = np.vstack([rs.normal(size=(8, 2)) + 2, rs.normal(size=(8, 2)) - 2])
    M = np.abs(rs.normal(size=(16, 16)))
    M = M + M.T
    cases = [("LinearMMD(rbf)", lambda: lin.LinearMMD(n_clusters=2, kernel="rbf", kernel_params={"gamma": 0.3}, max_iter=3, random_state=0)),
             ("LinearWasserstein(manhattan)", lambda: lin.LinearWasserstein(n_clusters=2, metric="manhattan", max_iter=3, random_state=0)),
             ("MLPMMD(linear, ovo)", lambda: mlp.MLPMMD(n_clusters=2, ovo=True, max_iter=3, random_state=0)),
             ("LinearModel(gemini='wasserstein_ova')", lambda: lin.LinearModel(n_clusters=2, gemini="wasserstein_ova", max_iter=3, random_state=0)),
             ("LinearModel(gemini=MMDGEMINI(rbf))", lambda: lin.LinearModel(n_clusters=2, gemini=gm.MMDGEMINI(kernel="rbf"), max_iter=3, random_state=0))]
    for nm, mk in cases:
        res["paths"] += 1
        m = mk().fit(X)
        a, b = float(m.score(X)), float(m.score(X, M))
        ok = abs(a - b) <= 1e-12 * max(1.0, abs(a))
        res["obligations"].append({"name": f"score-named/{nm}: score(X, M) == score(X)", "verdict": "unsat" if ok else "sat", "how": "concrete run", "values": [a, b]})
        if not ok and not res["violations"]:
            res["violations"].append({"signature": f"{PROP}:score:named-uses-y", "what": f"{nm}: score(X, M) = {b} uses the matrix passed as y although the affinity is named; score(X) = {a}", "replay": {"kind": "score-named"}})
    return res


def job_kernels():
    loader.install()
    res = _new()
    rec = Rec()
    core.reset()
    _install(rec)
    lin = loader.load("linear._linear_geminis")
    km = loader.load("tree.kauri")
    X = harness.free_matrix(3, 2, "x")
    T = harness.free_matrix(4, 2, "t")
    Ymat = harness.symmetric_matrix(3, "pre")
    checks = []
    for nm, params in [("linear", None), ("rbf", {"gamma": 0.5}), ("poly", {"degree": 2, "coef0": 1.0}), ("poly", {"degree": 3, "coef0": 0})]:
        est = lin.KernelRIM(base_kernel=nm, base_kernel_params=params)
        est.input_data_ = T
        n0 = len(rec.calls)
        A = est._compute_kernel(X)
        c = rec.calls[n0:]
        ok = len(c) == 1 and c[0]["what"] == "kernel" and c[0]["metric"] == nm and c[0]["params"] == (params or {}) and c[0]["X"] is X and c[0]["Y"] is T and A is c[0]["value"]
        checks.append((f"KernelRIM({nm!r}, {params})._compute_kernel(X) is pairwise_kernels(X, stored training data, metric, **params)", ok, "KernelRIM:kernel"))
        n0 = len(rec.calls)
        A2 = est._compute_kernel(T)       # the stored array object itself: still the same forwarding
        c = rec.calls[n0:]
        ok = len(c) == 1 and c[0]["metric"] == nm and c[0]["params"] == (params or {}) and c[0]["X"] is T and c[0]["Y"] is T
        checks.append((f"KernelRIM({nm!r}, {params})._compute_kernel(stored data) forwards the same name and parameters", ok, "KernelRIM:kernel-training-object"))
    two = lambda A, B: np.asarray(A, dtype=object) @ np.asarray(B, dtype=object).T
    est = lin.KernelRIM(base_kernel=two)
    est.input_data_ = T
    n0 = len(rec.calls)
    A = est._compute_kernel(X)
    checks.append(("KernelRIM(callable)._compute_kernel(X) is callable(X, stored training data)", len(rec.calls) == n0 and
                   all(to_rat(a).key() == to_rat(b).key() for a, b in zip(np.asarray(A, dtype=object).reshape(-1), two(X, T).reshape(-1))), "KernelRIM:kernel-callable"))
    for nm in ("linear", "rbf", "sigmoid"):
        k = km.Kauri(kernel=nm)
        n0 = len(rec.calls)
        A = k._compute_kernel(X, None)
        c = rec.calls[n0:]
        checks.append((f"Kauri({nm!r})._compute_kernel(X) is pairwise_kernels(X, metric={nm!r})", len(c) == 1 and c[0]["metric"] == nm and c[0]["X"] is X and c[0]["Y"] is None and A is c[0]["value"], "Kauri:kernel"))
        n0 = len(rec.calls)
        A = k._compute_kernel(X, Ymat)
        c = rec.calls[n0:]
        checks.append((f"Kauri({nm!r}) ignores y and still computes the named kernel", len(c) == 1 and c[0]["metric"] == nm and A is c[0]["value"], "Kauri:kernel-y-ignored"))
    k = km.Kauri(kernel="precomputed")
    n0 = len(rec.calls)
    A = k._compute_kernel(X, Ymat)
    checks.append(("Kauri(precomputed)._compute_kernel(X, y) is y", A is Ymat and len(rec.calls) == n0, "Kauri:precomputed"))
    try:
        with warnings.catch_warnings():
            warnings.simplefilter("ignore")
            k._compute_kernel(X, None)
        raised = False
    except ValueError:
        raised = True
    checks.append(("Kauri(precomputed) without a matrix raises", raised, "Kauri:precomputed-missing"))
    return _finish_checks(res, checks, "kernels")


def _finish_checks(res, checks, jobname):
    seen = set()
    for nm, ok, short in checks:
        res["obligations"].append({"name": f"{jobname}/{nm}", "verdict": "unsat" if ok else "sat", "how": "recorded-call / term-identity"})
        sig = f"{PROP}:{short}"
        if not ok and sig not in seen:
            rep = {"kind": jobname, "short": short}
            if replay(rep):
                seen.add(sig)
                res["violations"].append({"signature": sig, "what": nm + " -- violated", "replay": rep})
            else:
                res["obligations"][-1]["verdict"] = "inconclusive"
    res["paths"] = len(checks)
    res["samples"].append({"checks": len(checks), "first": [c[0] for c in checks[:3]]})
    return res


def job_same_fit(family, shape, hyper_named, batch_size=None, path_step=False):
    """named kernel (value A of the uninterpreted function) vs precomputed matrix A: identical terms everywhere"""
    loader.install()
    res = _new()
    box = {}
    attr = "metric" if "Wasserstein" in family else "kernel"

    def setup():
        core.CTX.merge_sign = True
        return None

    def body(_):
        env1 = cm.FitEnv(family, shape, batch_size=batch_size, max_iter=1, hyper=dict(hyper_named), stop_after_training=False, gemini_stub=True, final_infer="concrete")
        env1.run_fit()
        A = None
        for recd in getattr(env1, "affinity_log", []):
            if recd["Y"] is None:
                A = recd["value"]
        h2 = dict(hyper_named)
        h2[attr] = "precomputed"
        h2.pop(attr + "_params", None)
        env2 = cm.FitEnv(family, shape, batch_size=batch_size, max_iter=1, hyper=h2, stop_after_training=False, gemini_stub=True, final_infer="concrete")
        env2.y = A
        env2.run_fit()
        return env1, env2, A

    ex = Explorer(max_paths=20)
    seen = set()
    for out, pc, trace in ex.run(body, setup):
        res["paths"] += 1
        tag = f"same-fit/{family}/{cm.shape_str(shape)}/bs{batch_size}"
        if isinstance(out, PathError):
            res["obligations"].append({"name": tag + "/path-error", "verdict": "inconclusive", "how": repr(out)[:300]})
            continue
        e1, e2, A = out
        checks = [("a kernel was computed once for the named run and none for the precomputed run",
                   A is not None and sum(1 for r in getattr(e2, "affinity_log", []) if r["Y"] is None) == 0, "affinity-calls")]
        same_steps = len(e1.steps) == len(e2.steps) and len(e1.steps) > 0
        if same_steps:
            for s1, s2 in zip(e1.steps, e2.steps):
                a1, a2 = s1["gem"]["affinity"], s2["gem"]["affinity"]
                same_steps = same_steps and s1["rows"] == s2["rows"] and a1 is not None and a2 is not None and np.shape(a1) == np.shape(a2) and \
                    all(to_rat(x).key() == to_rat(y).key() for x, y in zip(np.asarray(a1, dtype=object).reshape(-1), np.asarray(a2, dtype=object).reshape(-1))) and \
                    all(to_rat(x).key() == to_rat(y).key() for x, y in zip(s1["gem"]["y_pred"].reshape(-1), s2["gem"]["y_pred"].reshape(-1)))
                for (n1, w1), (n2, w2) in zip(s1["params"], s2["params"]):
                    same_steps = same_steps and all(to_rat(x).key() == to_rat(y).key() for x, y in zip(w1.reshape(-1), w2.reshape(-1)))
        checks.append(("every step sees the same batch rows, predictions, weights and affinity block (term identity)", same_steps, "same-steps"))
        # score
        try:
            e1.mdl.get_gemini = e1.mdl.get_gemini
            s1 = e1.mdl.score(e1.X)
            s2 = e2.mdl.score(e2.X, A)
            c1, c2 = e1.gem_calls[-1], e2.gem_calls[-1]
            oks = all(to_rat(x).key() == to_rat(y).key() for x, y in zip(np.asarray(c1["affinity"], dtype=object).reshape(-1), np.asarray(c2["affinity"], dtype=object).reshape(-1)))
        except Exception as e:
            oks = False
        checks.append(("score(X) with the named kernel and score(X, A) with the precomputed matrix hand the GEMINI the same affinity", oks, "same-score"))
        for nm, ok, short in checks:
            res["obligations"].append({"name": f"{tag}/{nm}", "verdict": "unsat" if ok else "sat", "how": "term-identity"})
            sig = f"{PROP}:{family}:{short}"
            if not ok and sig not in seen:
                rep = {"kind": "same-fit", "family": family, "shape": list(shape), "hyper": {k: (v if not callable(v) else "callable") for k, v in hyper_named.items()}, "batch_size": batch_size}
                if replay(rep):
                    seen.add(sig)
                    res["violations"].append({"signature": sig, "what": f"{family}: {nm} -- violated", "replay": rep})
                else:
                    res["obligations"][-1]["verdict"] = "inconclusive"
        res["samples"].append({"config": tag, "steps": len(e1.steps)})
        break
    return res


def job_same_kauri():
    loader.install()
    res = _new()
    rec = Rec()
    core.reset()
    _install(rec)
    km = loader.load("tree.kauri")
    U = loader.load("tree._utils")
    km._validate_data = lambda est, a, **kw: a
    seen_kernels = []

    def stub(kernel, *a, **kw):
        seen_kernels.append(kernel)
        return U.Split(0, -1, -1, -1, -1, 0, False)
    km.find_best_split = stub
    X = np.array([[0.0, 1.0], [1.0, 0.0], [2.0, 2.0]])
    k1 = km.Kauri(kernel="rbf", max_clusters=2)
    k1.fit(X)
    A = rec.calls[-1]["value"]
    k2 = km.Kauri(kernel="precomputed", max_clusters=2)
    k2.fit(X, A)
    ok = len(seen_kernels) == 2 and seen_kernels[0] is A and seen_kernels[1] is A and rec.calls[-1]["metric"] == "rbf"
    checks = [("Kauri: the split search receives the same kernel matrix named or precomputed", ok, "Kauri:same-fit")]
    n0 = len(rec.calls)
    s1 = None
    try:
        km.gemini_objective = lambda y_pred, kernel: kernel
        a = k1.score(X)
        b = k2.score(X, A)
        ok2 = a is rec.calls[-1]["value"] and b is A and rec.calls[-1]["metric"] == "rbf"
    except Exception:
        ok2 = False
    checks.append(("Kauri: score computes the named kernel / uses the given matrix", ok2, "Kauri:same-score"))
    return _finish_checks(res, checks, "kauri")


def replay(rep, verbose=False):
    """the forwarding checks are re-run on the REAL classes with real scikit-learn kernels"""
    kind = rep["kind"]
    from sklearn.metrics import pairwise_kernels, pairwise_distances
    rng = np.random.default_rng(0)
    X = rng.normal(size=(5, 2))
    T = rng.normal(size=(6, 2))
    short = rep.get("short", "")
    if kind == "score-named":
        return bool(job_score_named_ignores_y()["violations"])
    if kind == "precomputed-dtype":
        return any(v["replay"]["cls"] == rep["cls"] for v in job_precomputed_dtype()["violations"])
    try:
        if kind in ("gemini", "kernels", "kauri"):
            lin = loader.real("linear._linear_geminis")
            km = loader.real("tree.kauri")
            cname = short.split(":")[0]
            what = short.split(":")[1] if ":" in short else ""
            if cname == "Kauri":
                if what == "precomputed-missing":
                    try:
                        with warnings.catch_warnings():
                            warnings.simplefilter("ignore")
                            km.Kauri(kernel="precomputed")._compute_kernel(X, None)
                        return True
                    except ValueError:
                        return False
                if what in ("kernel", "kernel-y-ignored"):
                    return any(not np.allclose(km.Kauri(kernel=nm)._compute_kernel(X, None), pairwise_kernels(X, metric=nm)) for nm in ("linear", "rbf", "sigmoid"))
                if what == "precomputed":
                    A = pairwise_kernels(X, metric="rbf")
                    return km.Kauri(kernel="precomputed")._compute_kernel(X, A) is not A
                if what in ("same-fit", "same-score"):
                    A = pairwise_kernels(X, metric="rbf")
                    a = km.Kauri(kernel="rbf", max_clusters=2).fit(X)
                    b = km.Kauri(kernel="precomputed", max_clusters=2).fit(X, A)
                    return (not np.array_equal(a.labels_, b.labels_)) or abs(a.score(X) - b.score(X, A)) > 1e-9
            if cname == "KernelRIM" and what.startswith("kernel"):
                for nm, params in [("rbf", {"gamma": 0.5}), ("poly", {"degree": 2, "coef0": 1.0}), ("poly", {"degree": 3, "coef0": 0}), ("linear", None)]:
                    est = lin.KernelRIM(base_kernel=nm, base_kernel_params=params)
                    est.input_data_ = T
                    if not np.allclose(est._compute_kernel(X), pairwise_kernels(X, T, metric=nm, **(params or {}))):
                        return True
                    if not np.allclose(est._compute_kernel(T), pairwise_kernels(T, T, metric=nm, **(params or {}))):
                        return True
                # a callable that is NOT symmetric in its arguments: the new points come first, the stored training points second,
                # whatever their numbers (fewer, as many, more new points than training points)
                Mns = np.array([[1.0, 2.0], [-0.5, 0.3]])
                kfun = lambda a, b: np.asarray(a) @ Mns @ np.asarray(b).T
                for m_ in (1, 3, 6, 9):
                    Xm = rng.normal(size=(m_, 2))
                    est = lin.KernelRIM(base_kernel=kfun)
                    est.input_data_ = T
                    if not np.allclose(est._compute_kernel(Xm), kfun(Xm, T)):
                        if verbose:
                            print(f"callable kernel with {m_} new points: not k(X, training data)")
                        return True
                return False
            # GEMINI forwarding through the estimator
            for modn, cn in MMD_EST + W_EST + GENERIC + [("linear._linear_geminis", "RIM"), ("linear._linear_geminis", "KernelRIM"), ("sparse._linear_sparse", "SparseLinearMI")]:
                if cn != cname:
                    continue
                cls = getattr(loader.real(modn), cn)
                gm = loader.real("gemini")
                if (modn, cn) in MMD_EST + W_EST:
                    # second evaluation / parameters untouched / set_params honoured (real scikit-learn kernels)
                    import copy
                    mmd = (modn, cn) in MMD_EST
                    attr, pattr = ("kernel", "kernel_params") if mmd else ("metric", "metric_params")
                    fn = pairwise_kernels if mmd else pairwise_distances
                    nm, p1, p2 = ("rbf", {"gamma": 0.5}, {"gamma": 2.0}) if mmd else ("euclidean", {"squared": True}, None)
                    est = cls(**{attr: nm, pattr: copy.deepcopy(p1)})
                    for _ in range(2):
                        if not np.allclose(est.get_gemini().compute_affinity(X), fn(X, metric=nm, **p1)):
                            return True
                    if est.get_params()[pattr] != p1:
                        return True
                    est.set_params(**{pattr: p2})
                    if not np.allclose(est.get_gemini().compute_affinity(X), fn(X, metric=nm, **(p2 or {}))):
                        return True
                if (modn, cn) in MMD_EST:
                    for ovo in (False, True):
                        for nm, params in [("rbf", {"gamma": 0.5}), ("sigmoid", {"coef0": 2.0, "gamma": 3.0}), ("sigmoid", {"coef0": 0, "gamma": 3.0}), ("poly", {"coef0": 0.0, "degree": 2}), ("linear", None)]:
                            g = cls(kernel=nm, kernel_params=params, ovo=ovo).get_gemini()
                            if not isinstance(g, gm.MMDGEMINI) or g.ovo is not ovo or not np.allclose(g.compute_affinity(X), pairwise_kernels(X, metric=nm, **(params or {}))):
                                return True
                        g = cls(kernel="precomputed", ovo=ovo).get_gemini()
                        A = pairwise_kernels(X)
                        if g.compute_affinity(X, A) is not A:
                            return True
                        try:
                            g.compute_affinity(X, None)
                            return True
                        except ValueError:
                            pass
                elif (modn, cn) in W_EST:
                    for ovo in (False, True):
                        for nm in ("euclidean", "cosine", "manhattan"):
                            g = cls(metric=nm, ovo=ovo).get_gemini()
                            if not isinstance(g, gm.WassersteinGEMINI) or g.ovo is not ovo or not np.allclose(g.compute_affinity(X), pairwise_distances(X, metric=nm)):
                                return True
                        g = cls(metric="precomputed", ovo=ovo).get_gemini()
                        try:
                            g.compute_affinity(X, None)
                            return True
                        except ValueError:
                            pass
                elif cn in ("RIM", "KernelRIM", "SparseLinearMI"):
                    g = cls().get_gemini()
                    return not (isinstance(g, gm.KLGEMINI) and g.ovo is False)
                else:
                    g = cls(gemini=None).get_gemini()
                    if not (isinstance(g, gm.MMDGEMINI) and g.ovo is False and g.kernel == "linear"):
                        return True
                    for name, (gc, ovo) in REG.items():
                        g = cls(gemini=name).get_gemini()
                        if not (isinstance(g, getattr(gm, gc)) and g.ovo is ovo):
                            return True
                    inst = gm.MMDGEMINI(ovo=True, kernel="rbf")
                    if cls(gemini=inst).get_gemini() is not inst:
                        return True
                return False
            return False
        if kind == "same-fit":
            family, shape = rep["family"], tuple(rep["shape"])
            cls, mod = cm.get_class(family, symbolic=False)
            dm = cm.dims(family, shape)
            Xd = rng.normal(size=(8, max(dm["d"], 2)))
            hyper = {k: v for k, v in rep["hyper"].items() if v != "callable"}
            attr = "metric" if "Wasserstein" in family else "kernel"
            kw = dict(n_clusters=2, max_iter=3, random_state=0, batch_size=rep.get("batch_size"))
            if cm.BASE[family] == "cat":
                kw.pop("batch_size")
            if cm.BASE[family] in ("mlp", "smlp"):
                kw["n_hidden_dim"] = 3
            a = cls(**kw, **hyper).fit(Xd)
            A = (pairwise_distances if attr == "metric" else pairwise_kernels)(Xd, metric=hyper[attr], **(hyper.get(attr + "_params") or {}))
            h2 = dict(hyper)
            h2[attr] = "precomputed"
            h2.pop(attr + "_params", None)
            b = cls(**kw, **h2).fit(Xd, A)
            wa, wb = a._get_weights(), b._get_weights()
            bad = any(not np.allclose(x, y, rtol=1e-9, atol=1e-12) for x, y in zip(wa, wb)) or abs(a.score(Xd) - b.score(Xd, A)) > 1e-9
            if verbose:
                print("named vs precomputed: weights equal?", not bad)
            return bad
    except Exception as e:
        if verbose:
            print("replay raised", type(e).__name__, e)
        return True
    return False


def jobs(tier):
    q = tier == "quick"
    out = [{"name": "gemini", "target": "checks.c11:job_gemini", "kwargs": {}, "timeout": 280},
           {"name": "kernels", "target": "checks.c11:job_kernels", "kwargs": {}, "timeout": 280},
           {"name": "same-kauri", "target": "checks.c11:job_same_kauri", "kwargs": {}, "timeout": 280},
           {"name": "precomputed-dtype", "target": "checks.c11:job_precomputed_dtype", "kwargs": {}, "timeout": 120},
           {"name": "score-named", "target": "checks.c11:job_score_named_ignores_y", "kwargs": {}, "timeout": 120}]
    sf = [("LinearMMD", (3, 2, 2), {"kernel": "rbf", "kernel_params": {"gamma": 0.5}}, None), ("LinearMMD", (3, 2, 2), {"kernel": "rbf", "kernel_params": {"gamma": 0.5}, "ovo": True}, 2),
          ("LinearWasserstein", (3, 2, 2), {"metric": "cosine"}, 2), ("MLPMMD", (3, 1, 1, 2), {"kernel": "sigmoid"}, None), ("SparseLinearMMD", (3, 2, 2), {"kernel": "rbf"}, 2),
          ("CategoricalMMD", (3, 2), {"kernel": "rbf"}, None)]
    if not q:
        sf += [("MLPWasserstein", (3, 1, 1, 2), {"metric": "manhattan"}, 1), ("SparseMLPMMD", (3, 1, 1, 2), {"kernel": "poly", "kernel_params": {"degree": 2}}, None),
               ("CategoricalWasserstein", (3, 2), {"metric": "euclidean"}, None)]
    for fam, sh, hy, bs in sf:
        out.append({"name": f"same-fit/{fam}/bs{bs}", "target": "checks.c11:job_same_fit", "kwargs": dict(family=fam, shape=sh, hyper_named=hy, batch_size=bs), "timeout": 280})
    return out


def run(tier, seed, only=None, nproc=None):
    t0 = time.time()
    js = [j for j in jobs(tier) if not only or only in j["name"]]
    pairs = runner.run_jobs(js, nproc=nproc, seed=seed)
    return runner.finish(
        PROP, tier, seed, pairs, t0,
        assumptions=["what scikit-learn computes for a kernel / metric name is outside: pairwise_kernels / pairwise_distances are recording uninterpreted functions",
                     "same-fit: one epoch, stubbed GEMINI values (the question is which affinity / rows / weights each step receives)"],
        bounds={"tier": tier, "jobs": [j["name"] for j in js]})
