"""C18 -- predictions are per-sample functions of the fitted model.

Symbolic fitted parameters and a symbolic array X of m<=3 new points.  For every non-empty ordered selection of rows
(every subset in every order, single rows included) the REAL public ``predict_proba`` / ``predict`` (and ``Tree.predict``
for Kauri) on the selection are compared, row by row, with the rows of the outputs on the whole array: identical terms /
identical labels on every path.  The same array object, a copy of it, and the stored training array are all tried.
KernelRIM: ``pairwise_kernels`` is an uninterpreted function of (metric, params, x_i, t_j), so the comparison also shows
that the kernel is taken between the new points and the STORED training points with the estimator's parameters, and that
training-set predictions equal those computed during fit.  ``check_array(X, dtype=<narrower float>)`` is modelled as an
uninterpreted rounding of every entry (so a silent down-cast before routing is visible).
"""
from __future__ import annotations

import itertools
import time
from fractions import Fraction

import numpy as np

from symx import core, harness, loader, runner
from symx.core import K, to_rat
from symx.explore import Explorer, PathError
from . import common_models as cm
from . import c19

PROP = "C18"


def _new():
    return {"paths": 0, "queries": 0, "obligations": [], "violations": [], "validated": 0, "witnesses": 0, "samples": []}


def _keys(a):
    return [to_rat(x).key() for x in np.asarray(a, dtype=object).reshape(-1)]


def selections(m):
    out = []
    for r in range(1, m + 1):
        for sub in itertools.permutations(range(m), r):
            out.append(list(sub))
    return out


def check_array_stub(X, dtype=None, **kw):
    """identity, except that a request for a float type narrower than 64 bits rounds every entry (uninterpreted)"""
    if dtype is not None and dtype != "numeric":
        try:
            dt = np.dtype(dtype)
        except TypeError:
            dt = None
        if dt is not None and dt.kind == "f" and dt.itemsize < 8:
            A = np.asarray(X, dtype=object)
            out = np.empty(A.shape, dtype=object)
            for idx in np.ndindex(*A.shape):
                out[idx] = core.uf(f"round_to_{dt.name}", to_rat(A[idx]))
            return out
    return X


def kernel_uf(X, Y=None, metric="linear", **params):
    X = np.asarray(X, dtype=object)
    Yv = X if Y is None else np.asarray(Y, dtype=object)
    pk = tuple(sorted((k, repr(v)) for k, v in params.items()))
    mk = metric if isinstance(metric, str) else "callable"
    out = np.empty((X.shape[0], Yv.shape[0]), dtype=object)
    for i in range(X.shape[0]):
        ki = tuple(to_rat(x).key() for x in X[i])
        for j in range(Yv.shape[0]):
            kj = tuple(to_rat(y).key() for y in Yv[j])
            a, b = (ki, kj) if repr(ki) <= repr(kj) else (kj, ki)
            out[i, j] = core.uf("kernel", mk, pk, a, b)
    return out


def _patch(mod_names):
    for name in mod_names:
        m = loader.load(name)
        if hasattr(m, "check_array"):
            m.check_array = check_array_stub
        if hasattr(m, "check_is_fitted"):
            m.check_is_fitted = lambda est, *a, **k: None
        if hasattr(m, "pairwise_kernels"):
            m.pairwise_kernels = kernel_uf


def long_selections(N):
    idn = list(range(N))
    return [[0], [N - 1], [N // 2], idn[N - 3:], idn[::-1], idn[::2], idn[1:]]


def job_model(family, shape, m=2, hyper=None, long_m=None):
    """long_m: the new points are long_m rows drawn by a fixed pattern from m distinct symbolic rows (length-dependent code --
    block-wise prediction, trailing partial blocks -- runs with its own constants); a few structured selections instead of all."""
    loader.install()
    res = _new()
    box = {}
    sels = selections(m)
    if long_m:
        from .c01 import long_pattern
        pattern = long_pattern(long_m, m)
        sels = long_selections(long_m)

    def setup():
        core.CTX.strict = True
        _patch(["_base_gemini", "linear._linear_geminis", "tree.douglas", "mlp._mlp_geminis", "sparse._mlp_sparse", "sparse._linear_sparse"])
        mdl, Xtrain, params, dm = cm.build_symbolic(family, shape, hyper=hyper)
        d = dm["d"] if cm.BASE[family] != "kernelrim" else 2
        if cm.BASE[family] == "kernelrim":
            # the stored training points are raw data rows; the kernel between points is uninterpreted
            T = harness.free_matrix(dm["n"], d, "t")
            mdl.input_data_ = T
            mdl._training_kernel = kernel_uf(T, T, metric=mdl.base_kernel, **(mdl.base_kernel_params or {}))
            Xtrain = T
        X = harness.free_matrix(m, d, "x")
        if long_m:
            X = X[np.asarray(pattern)]
        box.update(mdl=mdl, Xtrain=Xtrain)
        return mdl, X

    def body(arg):
        mdl, X = arg
        full_p = mdl.predict_proba(X)
        full_l = [int(v) for v in np.asarray(mdl.predict(X)).reshape(-1)]
        outs = []
        for sel in sels:
            Xs = X[sel]
            outs.append((sel, mdl.predict_proba(Xs), [int(v) for v in np.asarray(mdl.predict(Xs)).reshape(-1)]))
        again = mdl.predict_proba(X)                      # same object, second call: no state left behind by the calls above
        cop = mdl.predict_proba(np.array(X, dtype=object, copy=True))
        train = None
        if cm.BASE[family] == "kernelrim":
            T = box["Xtrain"]
            p_same = mdl.predict_proba(T)                  # the very array object stored by fit
            p_copy = mdl.predict_proba(np.array(T, dtype=object, copy=True))
            during_fit = mdl._infer(mdl._training_kernel, retain=False)
            train = (p_same, p_copy, during_fit)
        return full_p, full_l, outs, again, cop, train

    ex = Explorer(max_paths=3000)
    tagbase = f"{family}/{cm.shape_str(shape)}/m{m}" + (f"/N{long_m}" if long_m else "")
    seen = set()
    for out, pc, trace in ex.run(body, setup):
        res["paths"] += 1
        tag = f"{tagbase}/path{res['paths']}"
        if isinstance(out, PathError):
            res["obligations"].append({"name": tag + "/path-error", "verdict": "inconclusive", "how": repr(out)[:300]})
            continue
        full_p, full_l, outs, again, cop, train = out
        full_p = np.asarray(full_p, dtype=object)
        checks = []
        for sel, p, l in outs:
            p = np.asarray(p, dtype=object)
            okp = p.shape[0] == len(sel) and all(_keys(p[a]) == _keys(full_p[r]) for a, r in enumerate(sel))
            okl = l == [full_l[r] for r in sel]
            sname = sel if len(sel) <= 4 else f"[{sel[0]},{sel[1]},..,{sel[-1]}] ({len(sel)} rows)"
            checks.append((f"rows {sname}: predict_proba rows equal the full-array rows", okp, "subset-proba"))
            checks.append((f"rows {sname}: predict labels equal the full-array labels", okl, "subset-predict"))
        checks.append(("second call on the same array gives the same rows", _keys(again) == _keys(full_p), "repeat-call"))
        checks.append(("a copy of the array gives the same rows", _keys(cop) == _keys(full_p), "copy"))
        if train is not None:
            p_same, p_copy, during_fit = train
            checks.append(("training array object vs a copy of it: same probabilities", _keys(p_same) == _keys(p_copy), "train-object-vs-copy"))
            checks.append(("training-set probabilities equal those computed during fit", _keys(p_copy) == _keys(during_fit), "train-vs-fit"))
        for nm, ok, short in checks:
            res["obligations"].append({"name": f"{tag}/{nm}", "verdict": "unsat" if ok else "sat", "how": "term-identity"})
            sig = f"{PROP}:{family}:{short}"
            if not ok and sig not in seen:
                rep = {"kind": "model", "family": family, "shape": list(shape), "m": m, "which": short, "hyper": _jsonable(hyper), "long_m": long_m}
                if replay(rep):
                    seen.add(sig)
                    res["violations"].append({"signature": sig, "what": f"{family}: {nm} -- violated", "replay": rep})
                else:
                    res["obligations"][-1]["verdict"] = "inconclusive"
        if len(res["samples"]) < 1:
            res["samples"].append({"obligation": tag, "selections": len(outs), "pc_size": len(pc)})
    return res


def _jsonable(h):
    if not h:
        return None
    return {k: (v if isinstance(v, (int, float, str, bool, dict, type(None))) else repr(v)) for k, v in h.items()}


def job_kauri(L, m=2, long_m=None):
    """Kauri.predict / Tree.predict on symbolic points: subsets, orders, and public predict vs direct routing"""
    loader.install()
    res = _new()
    sels = selections(m)
    if long_m:
        from .c01 import long_pattern
        pattern = long_pattern(long_m, m)
        sels = long_selections(long_m)
    kmod = loader.load("tree.kauri")
    U = loader.load("tree._utils")
    d = 2
    thr_pool = [0.0, -1.5, 2.0]
    seen = set()
    for shape in c19.shapes(L):
        ni = c19.n_internal(shape)
        for feats in itertools.product(range(d), repeat=ni):
            thrs = [thr_pool[i % len(thr_pool)] for i in range(ni)]
            targets = [i % 3 for i in range(L)]
            box = {}

            def setup():
                _patch(["tree.kauri"])
                t = c19.build_tree(kmod, U, shape, feats, thrs, targets)
                mdl = kmod.Kauri()
                mdl.tree_ = t
                mdl.n_features_in_ = d
                X = harness.free_matrix(m, d, "x")
                if long_m:
                    X = X[np.asarray(pattern)]
                box["mdl"] = mdl
                return mdl, X

            def body(arg):
                mdl, X = arg
                full = [int(v) for v in mdl.predict(X)]
                direct = [int(v) for v in mdl.tree_.predict(X)]
                outs = [(sel, [int(v) for v in mdl.predict(X[sel])]) for sel in sels]
                return full, direct, outs

            ex = Explorer(max_paths=4000)
            tag0 = f"kauri/L{L}{'/N%d' % long_m if long_m else ''}/shape{c19.shapes(L).index(shape)}/f{''.join(map(str, feats))}"
            for out, pc, trace in ex.run(body, setup):
                res["paths"] += 1
                if isinstance(out, PathError):
                    res["obligations"].append({"name": tag0 + "/path-error", "verdict": "inconclusive", "how": repr(out)[:300]})
                    continue
                full, direct, outs = out
                checks = [("public predict == routing through the stored tree (what fit stored)", full == direct, "predict-vs-tree")]
                okall = all(l == [full[r] for r in sel] for sel, l in outs)
                checks.append((f"all {len(outs)} row selections agree with the full array", okall, "subset-predict"))
                for nm, ok, short in checks:
                    res["obligations"].append({"name": f"{tag0}/path{res['paths']}/{nm}", "verdict": "unsat" if ok else "sat", "how": "path-evaluation"})
                    sig = f"{PROP}:Kauri:{short}"
                    if not ok and sig not in seen:
                        rep = {"kind": "kauri", "shape": c19._shape_json(shape), "feats": list(feats), "thrs": thrs, "targets": targets, "which": short}
                        if replay(rep):
                            seen.add(sig)
                            res["violations"].append({"signature": sig, "what": f"Kauri: {nm} -- violated", "replay": rep})
                        else:
                            res["obligations"][-1]["verdict"] = "inconclusive"
    return res


def job_float_far(family):
    """CONCRETE float64 witness (exact arithmetic cannot see overflow guards): ordinary rows predicted together with one row that is far
    away (x 1e3) and with duplicated rows get the probabilities they get when predicted alone"""
    res = _new()
    rep_ = {"kind": "float-far", "family": family}
    bad = replay(rep_)
    res["paths"] = 1
    res["obligations"].append({"name": f"float-far-row/{family}: rows predicted with a far-away row == the same rows predicted without it / one by one", "verdict": "sat" if bad else "unsat", "how": "concrete float64 run"})
    if bad:
        res["violations"].append({"signature": f"{PROP}:{family}:float-far-row", "what": f"{family}: the probabilities of ordinary rows change when a far-away row is part of the same call", "replay": rep_})
    return res


AFTER_FIT_N = 11


def _near_training_arrays(T, Z):
    """arrays of the TRAINING SHAPE that agree with the training array T at many positions: one row replaced (every position in turn),
    every other row replaced, two rows exchanged, reversed.  Z supplies the replacement rows."""
    N = len(T)
    out = []
    for i in range(N):
        V = np.array(T, dtype=T.dtype, copy=True)
        V[i] = Z[i % len(Z)]
        out.append((f"row {i} replaced", V))
    V = np.array(T, dtype=T.dtype, copy=True)
    for i in range(1, N, 2):
        V[i] = Z[i % len(Z)]
    out.append(("odd rows replaced", V))
    V = np.array(T, dtype=T.dtype, copy=True)
    V[[2, N - 2]] = V[[N - 2, 2]]
    out.append((f"rows 2 and {N - 2} exchanged", V))
    out.append(("reversed", np.array(T[::-1], dtype=T.dtype, copy=True)))
    return out


def job_after_fit(family, shape):
    """The model is produced by the REAL ``fit`` (objective and optimiser stubbed, one epoch) on AFTER_FIT_N rows drawn from two
    distinct symbolic rows -- so whatever fit leaves on the estimator is there -- and is then asked for arrays of the training shape
    that share most rows with the training data: every row must get the probabilities it gets when predicted alone, and the
    training array itself, a copy of it and its rows one by one must agree."""
    loader.install()
    res = _new()
    N = AFTER_FIT_N
    from .c01 import long_pattern
    pattern = long_pattern(N, 2)

    def setup():
        core.CTX.strict = True
        env = cm.FitEnv(family, (N,) + tuple(shape[1:]), gemini="mi", batch_size=None, max_iter=1, stop_after_training=False, gemini_stub=True, final_infer="concrete")
        if cm.BASE[family] == "kernelrim":
            # a point-wise uninterpreted kernel (FitEnv's stand-in is one matrix per call, which says nothing about single rows)
            loader.load("linear._linear_geminis").pairwise_kernels = kernel_uf
        base = env.X[:2]
        env.X = np.array(base[np.asarray(pattern)], dtype=object, copy=True)
        Z = harness.free_matrix(1, env.X.shape[1], "z")
        return env, Z

    def body(arg):
        env, Z = arg
        env.run_fit()
        env.final_infer, env.assume_unclipped = "real", False
        mdl, T = env.mdl, env.X
        outs = []
        for name, V in [("training array", T), ("copy of the training array", np.array(T, dtype=object, copy=True))] + _near_training_arrays(T, Z):
            full = np.asarray(mdl.predict_proba(V), dtype=object)
            alone = [np.asarray(mdl.predict_proba(V[i:i + 1]), dtype=object)[0] for i in range(len(V))]
            outs.append((name, full, alone))
        return outs

    ex = Explorer(max_paths=400)
    tagbase = f"after-fit/{family}/{cm.shape_str(shape)}/N{N}"
    seen = set()
    rep = {"kind": "after-fit", "family": family}
    for out, pc, trace in ex.run(body, setup):
        res["paths"] += 1
        tag = f"{tagbase}/path{res['paths']}"
        if isinstance(out, PathError):
            bad = replay(rep)
            res["obligations"].append({"name": tag + "/path-error", "verdict": "sat" if bad else "inconclusive", "how": repr(out)[:300]})
            sig = f"{PROP}:{family}:after-fit"
            if bad and sig not in seen:
                seen.add(sig)
                res["violations"].append({"signature": sig, "what": f"{family}: after a real fit, rows of an array of the training shape are not predicted as they are alone (symbolic run stopped: {repr(out)[:120]})", "replay": rep})
            break
        for name, full, alone in out:
            ok = full.shape[0] == len(alone) and all(_keys(full[i]) == _keys(alone[i]) for i in range(len(alone)))
            res["obligations"].append({"name": f"{tag}/{name}: every row as when predicted alone", "verdict": "unsat" if ok else "sat", "how": "term-identity"})
            sig = f"{PROP}:{family}:after-fit"
            if not ok and sig not in seen:
                if replay(rep):
                    seen.add(sig)
                    res["violations"].append({"signature": sig, "what": f"{family}: after a real fit, {name}: rows are not predicted as they are alone", "replay": rep})
                else:
                    res["obligations"][-1]["verdict"] = "inconclusive"
        if len(res["samples"]) < 1:
            res["samples"].append({"obligation": tag, "arrays": len(out), "pc_size": len(pc)})
    if ex.truncated:
        res["obligations"].append({"name": tagbase + "/exploration", "verdict": "unknown", "how": "path budget exhausted"})
    return res


def _after_fit_run(rep, verbose):
    """concrete counterpart: the real estimator, really fitted (a few epochs) on float data"""
    import warnings
    family = rep["family"]
    N = AFTER_FIT_N
    rng = np.random.RandomState(3)
    mods = {"LinearModel": ("linear._linear_geminis", "LinearMMD", {}), "MLPModel": ("mlp._mlp_geminis", "MLPMMD", {"n_hidden_dim": 3}),
            "SparseLinearModel": ("sparse._linear_sparse", "SparseLinearMMD", {}), "SparseMLPModel": ("sparse._mlp_sparse", "SparseMLPMMD", {"n_hidden_dim": 3}),
            "Douglas": ("tree.douglas", "Douglas", {}), "KernelRIM": ("linear._linear_geminis", "KernelRIM", {})}
    modname, clsname, kw = mods[family]
    cls = getattr(loader.real(modname), clsname)
    for n in (N, 24):
        X = rng.normal(size=(n, 2))
        Z = rng.normal(size=(3, 2))
        with warnings.catch_warnings():
            warnings.simplefilter("ignore")
            mdl = cls(n_clusters=3, max_iter=5, random_state=0, **kw).fit(X)
            for name, V in [("training array", X), ("copy", X.copy())] + _near_training_arrays(X, Z):
                full = mdl.predict_proba(V)
                alone = np.vstack([mdl.predict_proba(V[i:i + 1]) for i in range(len(V))])
                if full.shape != alone.shape or not np.allclose(full, alone, rtol=1e-9, atol=1e-12):
                    if verbose:
                        print(family, f"n={n}", name, "max |together - alone| =", float(np.abs(full - alone).max()))
                    return True
            if not np.array_equal(np.asarray(mdl.predict(X)), np.asarray(mdl.labels_)):
                if verbose:
                    print(family, f"n={n}", "predict(training data) differs from labels_")
                return True
    return False


def _float_far_run(rep, verbose):
    family = rep["family"]
    shape = {"LinearModel": (6, 2, 3), "MLPModel": (6, 2, 3, 3), "Douglas": (6, 2, 2, 3), "KernelRIM": (6, 3), "SparseLinearModel": (6, 2, 3)}[family]
    rng = np.random.RandomState(8)
    for temperature in (0.1, 0.02):
        mdl, X, params, dm, G = cm.build_concrete(family, shape, {}, hyper=None)
        for _, arr in params:
            arr[...] = rng.normal(size=arr.shape)
        d = dm["d"] if cm.BASE[family] != "kernelrim" else 2
        if cm.BASE[family] == "kernelrim":
            T = rng.normal(size=(dm["n"], d))
            mdl.input_data_ = T
            mdl._training_kernel = mdl._compute_kernel(T.copy())
        if cm.BASE[family] == "douglas":
            mdl.temperature = temperature
        mdl.labels_ = np.zeros(1)
        Xn = rng.normal(size=(7, d))
        for far in (1e3, -1e3, 40.0):
            Xf = np.vstack([Xn, Xn[:1] * 0 + far, Xn[:2]])
            with np.errstate(all="ignore"):
                full = mdl.predict_proba(Xf)
                alone = np.vstack([mdl.predict_proba(Xf[i:i + 1]) for i in range(len(Xf))])
                part = mdl.predict_proba(Xn)
            if not (np.allclose(full, alone, rtol=1e-9, atol=1e-12, equal_nan=True) and np.allclose(full[:len(Xn)], part, rtol=1e-9, atol=1e-12, equal_nan=True)):
                if verbose:
                    print(family, "temperature", temperature, "far value", far, "max difference", float(np.nanmax(np.abs(full - alone))))
                return True
    return False


def replay(rep, verbose=False):
    rng = np.random.default_rng(4)
    if rep["kind"] == "float-far":
        return _float_far_run(rep, verbose)
    if rep["kind"] == "after-fit":
        return _after_fit_run(rep, verbose)
    if rep["kind"] == "kauri":
        kmod = loader.real("tree.kauri")
        U = loader.real("tree._utils")
        t = c19.build_tree(kmod, U, c19._shape_from(rep["shape"]), rep["feats"], rep["thrs"], rep["targets"])
        mdl = kmod.Kauri()
        mdl.tree_ = t
        mdl.labels_ = np.zeros(1, dtype=int)
        mdl.n_features_in_ = 2
        pts = []
        for thr in set(rep["thrs"]):
            for eps in (0.0, 1e-9, -1e-9, 1e-3, -1e-3):
                pts.append(thr + eps)
        big = 1.7e9                                  # values whose float32 spacing is large
        X = np.array([[a, b] for a in pts for b in pts] + [[big + a, big + b] for a in (0.0, 1.0, 64.0) for b in (0.0, 1.0)])
        # shift the tree thresholds for the large-offset points as well
        bad = False
        for Xc in (X,):
            full = mdl.predict(Xc)
            direct = t.predict(Xc.astype(np.float64))
            if not np.array_equal(full, direct):
                bad = True
            for i in range(len(Xc)):
                if mdl.predict(Xc[i:i + 1])[0] != full[i]:
                    bad = True
        if not bad:
            # thresholds near a large offset
            t2 = c19.build_tree(kmod, U, c19._shape_from(rep["shape"]), rep["feats"], [big + 1.0 + 64.0 * i for i in range(len(rep["thrs"]))], rep["targets"])
            mdl.tree_ = t2
            Xb = np.array([[big + a, big + b] for a in np.arange(0.0, 200.0, 7.0) for b in (0.0, 65.0, 130.0)])
            if not np.array_equal(mdl.predict(Xb), t2.predict(Xb)):
                bad = True
        if verbose:
            print("public predict vs direct routing / single rows:", "MISMATCH" if bad else "ok")
        return bad
    family, shape, m = rep["family"], tuple(rep["shape"]), rep["m"]
    dm = cm.dims(family, shape)
    model = {}
    hyper = rep.get("hyper") or {}
    if family == "KernelRIM":
        hyper = dict(hyper)
        hyper.setdefault("base_kernel", "rbf")
        hyper.setdefault("base_kernel_params", {"gamma": 5.0})
    for attempt in range(3):
        mdl, X, params, dmm, G = cm.build_concrete(family, shape, model, hyper={k: v for k, v in hyper.items() if k in ("base_kernel", "base_kernel_params", "batch_size")} or None)
        for _, arr in params:
            arr[...] = rng.normal(size=arr.shape)
        d = dm["d"] if cm.BASE[family] != "kernelrim" else 2
        if cm.BASE[family] == "kernelrim":
            T = rng.normal(size=(dm["n"], d))
            mdl.input_data_ = T
            mdl._training_kernel = mdl._compute_kernel(T.copy())
        if cm.BASE[family] == "douglas":
            mdl.temperature = 0.8
        mdl.labels_ = np.zeros(1)
        Xn = rng.normal(size=((rep.get("long_m") or m + 2), d))
        full = mdl.predict_proba(Xn)
        for sel in (long_selections(len(Xn)) if rep.get("long_m") else selections(min(m + 1, 3))):
            if not np.allclose(mdl.predict_proba(Xn[sel]), full[sel], rtol=1e-10, atol=1e-12):
                return True
        if not np.allclose(mdl.predict_proba(Xn), full) or not np.allclose(mdl.predict_proba(Xn.copy()), full):
            return True
        if cm.BASE[family] == "kernelrim":
            T = mdl.input_data_
            a, b = mdl.predict_proba(T), mdl.predict_proba(T.copy())
            c = mdl._infer(mdl._training_kernel, retain=False)
            if verbose:
                print("max |proba(training object) - proba(copy)|", np.abs(a - b).max(), " vs during fit", np.abs(b - c).max())
            if not np.allclose(a, b, rtol=1e-10, atol=1e-12) or not np.allclose(b, c, rtol=1e-10, atol=1e-12):
                return True
    return False


def jobs(tier):
    q = tier == "quick"
    out = []
    mods = [("LinearModel", (2, 2, 2), 2, None), ("MLPModel", (2, 2, 1, 2), 2, None), ("SparseMLPModel", (2, 1, 1, 2), 2, None),
            ("Douglas", (2, 1, 1, 2), 2, None), ("KernelRIM", (2, 2), 2, {"base_kernel": "rbf", "base_kernel_params": {"gamma": 5.0}}),
            ("KernelRIM", (2, 2), 2, None), ("SparseLinearModel", (2, 2, 2), 2, None)]
    if not q:
        mods += [("LinearModel", (2, 2, 3), 3, None), ("MLPModel", (2, 1, 2, 2), 3, None), ("Douglas", (2, 2, 1, 2), 2, None), ("KernelRIM", (3, 2), 3, {"base_kernel": "poly", "base_kernel_params": {"degree": 2}})]
    for fam, sh, m, hy in mods:
        out.append({"name": f"{fam}/{cm.shape_str(sh)}/m{m}/{'params' if hy else 'default'}", "target": "checks.c18:job_model", "kwargs": dict(family=fam, shape=sh, m=m, hyper=hy),
                    "timeout": 280 if q else 2400})
    for fam, sh in [("LinearModel", (2, 2, 2)), ("MLPModel", (2, 2, 1, 2)), ("Douglas", (2, 1, 1, 2)), ("KernelRIM", (2, 2)), ("SparseMLPModel", (2, 1, 1, 2))]:
        for N in ([70] if q else [70, 300]):
            out.append({"name": f"{fam}/{cm.shape_str(sh)}/m2/long{N}", "target": "checks.c18:job_model", "kwargs": dict(family=fam, shape=sh, m=2, long_m=N), "timeout": 280 if q else 2400})
        # the training batch size must not matter at prediction time (more rows than one batch, not a multiple of it)
        out.append({"name": f"{fam}/{cm.shape_str(sh)}/m2/long70/batch16", "target": "checks.c18:job_model", "kwargs": dict(family=fam, shape=sh, m=2, long_m=70, hyper={"batch_size": 16}), "timeout": 280 if q else 2400})
        out.append({"name": f"{fam}/{cm.shape_str(sh)}/m3/batch2", "target": "checks.c18:job_model", "kwargs": dict(family=fam, shape=sh, m=3, hyper={"batch_size": 2}), "timeout": 280 if q else 2400})
    for fam in ("LinearModel", "MLPModel", "Douglas", "KernelRIM", "SparseLinearModel"):
        out.append({"name": f"float-far-row/{fam}", "target": "checks.c18:job_float_far", "kwargs": dict(family=fam), "timeout": 200})
    # fitted by the real fit, then asked for arrays that look like the training data
    for fam, sh in [("LinearModel", (2, 1, 2)), ("MLPModel", (2, 1, 1, 2)), ("SparseMLPModel", (2, 1, 1, 2)), ("SparseLinearModel", (2, 1, 2)), ("Douglas", (2, 1, 1, 2)), ("KernelRIM", (2, 2))]:
        out.append({"name": f"after-fit/{fam}", "target": "checks.c18:job_after_fit", "kwargs": dict(family=fam, shape=sh), "timeout": 280 if q else 1200})
    for L in ([2, 3, 4] if q else [2, 3, 4, 5]):
        out.append({"name": f"kauri/L{L}", "target": "checks.c18:job_kauri", "kwargs": dict(L=L, m=2), "timeout": 280 if q else 2400})
        if L <= 3:
            out.append({"name": f"kauri/L{L}/long70", "target": "checks.c18:job_kauri", "kwargs": dict(L=L, m=2, long_m=70), "timeout": 280 if q else 2400})
    return out


def run(tier, seed, only=None, nproc=None):
    t0 = time.time()
    js = [j for j in jobs(tier) if not only or only in j["name"]]
    pairs = runner.run_jobs(js, nproc=nproc, seed=seed)
    return runner.finish(
        PROP, tier, seed, pairs, t0,
        assumptions=["fitted parameters are arbitrary symbols (any fitted state of the listed shapes); new points symbolic",
                     "pairwise_kernels is an uninterpreted function of (metric, params, x_i, t_j), symmetric in its two points",
                     "check_array(dtype=narrower float) = uninterpreted rounding; otherwise identity; exact reals",
                     "differentiability ties (ReLU pre-activation exactly 0, equal logits) excluded from the arg-max decisions"],
        bounds={"tier": tier, "rows": "m<=2 (3 thorough): every ordered selection of rows; 70 (300) rows drawn from 2 symbolic rows with 7 structured selections; batch_size hyper-parameter 2 / 16", "jobs": [j["name"] for j in js]})
