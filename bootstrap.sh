#!/bin/sh
# Build the overlay virtualenv /verif/.venv offline (idempotent).
# /venv's interpreter + its site-packages (via .pth) + z3-solver, cvc5, crosshair-tool from the wheelhouse.
set -e
HERE="$(cd "$(dirname "$0")" && pwd)"
V="$HERE/.venv"
if [ -x "$V/bin/python" ] && "$V/bin/python" -c "import z3, numpy, sklearn" >/dev/null 2>&1; then
    exit 0
fi
rm -rf "$V"
/venv/bin/python -m venv "$V"
SP="$("$V/bin/python" -c 'import site; print(site.getsitepackages()[0])')"
printf "import site; site.addsitedir('/venv/lib/python3.12/site-packages')\n" > "$SP/_overlay.pth"
PIP_NO_INDEX=1 "$V/bin/python" -m pip install -q --no-index --find-links /opt/veriftools/wheels z3-solver cvc5 crosshair-tool >/dev/null 2>&1 || \
PIP_NO_INDEX=1 "$V/bin/python" -m pip install -q --no-index --find-links /opt/veriftools/wheels z3-solver
"$V/bin/python" -c "import z3, numpy, sklearn; print('overlay venv ready: z3', z3.get_version_string())"
