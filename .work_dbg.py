import sys, warnings; sys.path.insert(0,'/verif'); warnings.simplefilter('ignore')
from symx import core, harness, loader
from symx.explore import Explorer
import numpy as np
loader.install()
pg=loader.load('sparse._prox_grad')
def setup():
    v=harness.free_matrix(1,1,'v'); u=harness.free_matrix(1,1,'u'); a=core.var('alpha','0+'); M=core.var('M','0+'); lr=core.var('lr','+')
    return v,u,a*lr,M
orig=pg.np.take_along_axis
def body(arg):
    v,u,thr,M=arg
    return pg.mlp_prox_grad(v,u,thr,M)
ex=Explorer(max_paths=3)
for out,pc,tr in ex.run(body,setup):
    print(out); print(pc); break
