import sys, warnings, time; sys.path.insert(0,'/verif'); warnings.simplefilter('ignore')
from checks import c02
import random
rng=random.Random(1); hits=0
for t in range(40):
    m={}
    for i in range(3):
        m[f"p_{i}_0"]=str(round(rng.uniform(0.05,0.95),3))
    rep={"label":"W-ovo","n":3,"K":2,"kind":"grad","model":m}
    hits+=c02.replay(rep)
print('hits',hits,'of 40')
