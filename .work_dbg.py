import sys, warnings; sys.path.insert(0,'/verif'); warnings.simplefilter('ignore')
from checks import c13
r=c13.job_perm('W-ovo',2,3,empty_col=True)
for o in r['obligations'][:6]: print(o)
print(r['violations'])
rep={"kind":"perm","label":"W-ovo","n":2,"K":3,"sigma":[0,1],"tau":[2,0,1],"empty_col":True,"model":{"p_0_0":"1/3","p_1_0":"3/4"}}
print(c13.replay(rep,verbose=True))
