import sys, warnings; sys.path.insert(0,'/verif'); warnings.simplefilter('ignore')
from checks import common_models as cm
from symx import core, loader
from symx.explore import Explorer
loader.install()
def setup():
    core.CTX.merge_sign=True; core.CTX.strict=True
    return cm.PathEnv('SparseLinearModel',(3,1,2),gemini='mmd_ova',batch_size=2,max_iter=1,gemini_stub=True, y_given=False)
ex=Explorer(max_paths=50)
n=0
for out,pc,tr in ex.run(lambda env: env.run_path(), setup):
    n+=1
    if hasattr(out,'tb'): print(out.tb[-800:]); break
    print('steps',len(out.steps),[s['rows'] for s in out.steps],'val',[v['rows'] for v in out.val_calls], out.path_result[3], out.path_warnings[:1])
print(n)
