import sys, warnings, time, cProfile, pstats; sys.path.insert(0,'/verif'); warnings.simplefilter('ignore')
from checks import c02
t0=time.time()
cProfile.run("r=c02.job_clip('KL-ova',2,2,max_paths=12)", '/tmp/prof.out')
print(time.time()-t0, {k:(v if not isinstance(v,list) else len(v)) for k,v in r.items()})
pstats.Stats('/tmp/prof.out').sort_stats('cumtime').print_stats(25)
