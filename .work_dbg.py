import sys, warnings; sys.path.insert(0,'/verif'); warnings.simplefilter('ignore')
from checks import c03, common_models as cm
from symx import core, loader
from symx.explore import Explorer
loader.install()
def setup():
    core.CTX.strict=True; core.CTX.merge_sign=True
    return cm.FitEnv('LinearModel',(3,1,2),gemini='mi',batch_size=None,mlcl=True)
ex=Explorer()
for out,pc,tr in ex.run(lambda env: env.run_fit(), setup):
    print(getattr(out,'tb',out)); break
