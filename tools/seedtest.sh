#!/bin/bash
# usage: tools/seedtest.sh <worktree> <patch> <PROP> [vt args]  -- applies patch in the scratch worktree, runs the check against it (SYMX_REPO), reverts
WT="$1"; P="$2"; ID="$3"; shift 3
git -C "$WT" checkout -q -- gemclus
git -C "$WT" apply "$P" || { echo "patch does not apply"; exit 9; }
find /verif/replays -name "$ID-*.json" -delete 2>/dev/null
cd /verif && SYMX_REPO="$WT" ./vt check "$ID" "$@" 2>&1 | grep -E "VIOLATION|^\[$ID\]"
grep -h '"signature"' /verif/replays/$ID-*.json 2>/dev/null | sort | uniq -c
find /verif/replays -name "$ID-*.json" -delete 2>/dev/null
git -C "$WT" checkout -q -- gemclus
