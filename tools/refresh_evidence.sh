#!/bin/sh
# re-run every registered quick check on the (clean) tree so that the committed evidence describes a clean run
cd /verif
if [ -n "$(git -C /repo status --porcelain --untracked-files=no)" ]; then echo "/repo not clean"; exit 9; fi
rm -f replays/*.json
for id in $(.venv/bin/python -c "import json;print(' '.join(c['property_id'] for c in json.load(open('MANIFEST.json'))['checks']))"); do
  ./vt check $id --tier quick 2>&1 | grep -E "VIOLATION|KNOWN|^\[$id\]"
done
python3-vt tools/validate.py
