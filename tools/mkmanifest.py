#!/usr/bin/env python3
"""Regenerate /verif/MANIFEST.json from the table below (single source of truth for the interface)."""
import json
import os

HERE = os.path.dirname(os.path.dirname(os.path.abspath(__file__)))
TECH = "symbolic execution of the repository source on object-dtype arrays (symx) + fresh QF_NRA/QF_LRA queries (z3 5.1; z3 4.8 / cvc5 CLI as portfolio)"

# id -> (level text, level note, design ref, technique override or None)
CLAIMED = {
    "C01": (
        "Bounded symbolic model checking: the real evaluate()/__call__/registry path of every GEMINI is executed on a symbolic "
        "row-stochastic P (open simplex) and a fully symbolic symmetric affinity; the solver shows the returned term equals the "
        "definitional oracle for ALL reals of the listed shapes, per feasible path. Right level because the property is a "
        "first-order identity over the reals once log/sqrt are atoms.  Long inputs (N up to 300 quick / 1031 thorough rows drawn from 3 distinct "
        "symbolic rows) exercise length-dependent code (blocking) with the code's own constants.",
        "Trusted: symx normal form + z3; exact reals (no float rounding); shapes (n,K) listed in evidence.bounds; ot.emd2 is an "
        "uninterpreted function (POT computing W1 is trusted); scikit-learn kernels are outside (C11 covers dispatch).",
        "DESIGN.md §4 C01", None),
    "C02": (
        "Bounded symbolic model checking: the real evaluate(return_grad=True) runs on symbolic predictions (simplex by substitution); "
        "the returned score term is differentiated exactly (symx.diff) along every simplex direction and the solver shows it equals "
        "the difference of returned gradient entries, per feasible path (TV sign patterns as sign atoms, MMD zero-distance masks, all "
        "clipping patterns on the closed box).  Also score(grad)==score(no grad) (open simplex and every clipping pattern), shape, zero gradient at clipped entries; long inputs "
        "(N rows from 3 distinct rows) through the chain rule over the positions of a row.",
        "Trusted: symx (normal form, differentiation) + z3; differentiability region only (ties excluded); Wasserstein through the stubbed "
        "ot.emd2 with the envelope-theorem differential (POT's duals are trusted); exact reals; shapes in evidence.bounds.",
        "DESIGN.md §4 C02", None),
    "C05": (
        "Bounded symbolic model checking of the real prox functions on symbolic weights/alpha/M with every branch (sort orders, clipping, "
        "zero rows, ties) forked: group lasso output equals the documented explicit form and satisfies the stationarity certificate; "
        "LassoNet hier-prox output satisfies the quantifier-free optimality certificate A/A2/A3, and the lemmas that make the certificate "
        "sufficient are discharged by the solver in the same run.  A differential harness (real operator vs. an independently written "
        "Hier-Prox on the same symbolic inputs, outputs compared by normal form / solver on every joint path) extends the reach to 3 hidden "
        "units and grouped blocks with several outputs.",
        "Trusted: symx + z3; exact reals; shapes (d,k,h) and group partitions listed in evidence.bounds; optimality of the hierarchical "
        "operator is by certificate + lemmas (T2 up to h=3, L2 for k=2), the direct 'no competitor does better' query only for the group lasso with h<=2.",
        "DESIGN.md §4 C05", None),
    "C03": (
        "Bounded symbolic model checking in two layers. (1) real _infer + real _compute_grads of every model family on symbolic "
        "parameters/data with a FREE upstream gradient: each returned direction equals -d/dtheta <G, infer(X)> (+ family penalty), by "
        "exact differentiation of the forward terms, per ReLU pattern / cut ordering. (2) the real fit loop for one epoch under stubs "
        "(identity validation, symbolic RNG, recording optimiser that re-randomises parameters): at every step the direction handed "
        "to the optimiser equals -d/dtheta [GEMINI(infer(X_batch), A_batch) - penalty], the GEMINI being re-evaluated on that step's own "
        "prediction terms (RIM l2, KernelRIM kernel-weighted l2, must-link/cannot-link terms included -- with a constrained pair inside a "
        "mini-batch, vacuity-guarded); sparse models also at parameters with an exactly-null feature row.",
        "Trusted: symx + z3; sklearn softmax replaced by its exp contract; predictions assumed unclipped in layer 2; shapes and "
        "(family, GEMINI, batch size, solver) grid listed in evidence.bounds; exact reals.",
        "DESIGN.md §4 C03", None),
    "C13": (
        "Bounded symbolic model checking on the real evaluate(): for every permutation pair of the shape the permuted run and the "
        "original run are compared term by term (score invariant, gradient equivariant); sample-independent predictions give 0 (1/2 "
        "for chi2); lower/upper bounds by solver inequalities (KL via tangent instances of log); on the CLOSED simplex every path "
        "(zeros, one-hot rows, ties, coinciding clusters) must leave score and gradient defined; empty clusters get exactly zero "
        "gradient and change the score by <= 1e-9 relative; MI of a balanced hard partition is within 1e-9 of log K.  Long inputs (67 / 300 "
        "rows from 2 distinct rows) under reversal, rotations and an interleaving of the samples.  A few concrete float64 witnesses (labelled) for long "
        "saturated inputs and for one-hot rows stored as integers / booleans.",
        "Trusted: symx + z3; 'finite' is algebraic definedness in exact arithmetic (float overflow/underflow is outside); shapes "
        "(2,2),(3,2),(2,3) with all permutations; transport stub canonical under relabelling; undischarged bounds are listed in the evidence.",
        "DESIGN.md §4 C13", None),
    "C08": (
        "Bounded symbolic model checking of the split search: the current .pyx text (mechanically translated; translator validated "
        "against the compiled extension on random states in every run) runs on a FULLY symbolic symmetric kernel over an exhaustive "
        "enumeration of discrete tree states (tie patterns x sample->leaf partitions x leaf->cluster partitions x K_max x "
        "min_samples_leaf); per feasible path (QF_LRA) the claimed gain equals J(after)-J(before) of the returned split and one "
        "disjunctive query shows no admissible star/double-star/switch/reallocation alternative increases J more.",
        "Trusted: symx + z3; the oracle's enumeration of admissible alternatives (written from the property statement); exact reals; "
        "n<=4 exhaustive at d=1 (+ listed n=5/6 and d=2 states); the .so cannot be rebuilt offline, so the .pyx source is what is "
        "judged and counterexamples are replayed on both.  Three known findings (double-star gain, its effect on the choice, "
        "reallocation bookkeeping) are listed in known_findings.json.",
        "DESIGN.md §4 C08", None),
    "C09": (
        "Exhaustive exploration of the real Kauri.fit growth loop against a nondeterministic contract stub of find_best_split "
        "(any admissible split or stop, chosen by a forked symbolic integer; any feature subset): on every path all structural "
        "limits, the tree/partition invariants, routing of the training data and of a fresh SYMBOLIC point through the real "
        "Tree.predict, and score == J(predicted labels) for a symbolic kernel are checked. Scripted growth histories (5 samples, 4 splits, admissibility checked by the C08 oracle) reach bookkeeping that needs more leaves than the exhaustive n<=4 jobs.",
        "Trusted: the contract stub (its faithfulness to the real search is C08); data enter through order/ties only (listed datasets "
        "n<=4, d<=2); hyper-parameter corners (quick) / full small grid (thorough); validation stubbed; float32/64 effects outside.",
        "DESIGN.md §4 C09", "symbolic execution of the repository source (symx): forked symbolic-integer choices + symbolic query point, path-wise evaluation of post-conditions (z3 feasibility)"),
    "C19": (
        "Every binary tree shape with <=4 leaves (5 thorough) over 3 features, built through the real Tree._add_child; the real "
        "print_kauri_tree output is read back by an independent parser and applied to a SYMBOLIC point with every comparison "
        "forked; on every feasible path it must agree with the real Tree.predict; refusals checked concretely.  Trees are built in every "
        "order in which their splits can have been performed (node numbering differs, the function does not).",
        "Trusted: the reader of the printed layout (written from the documented layout); thresholds concrete (0.0, negative, repeated, doubles "
        "needing 17 significant digits, large and small magnitudes).",
        "DESIGN.md §4 C19", "symbolic execution of the repository source (symx): symbolic query point forked through printed rules and Tree.predict (z3 feasibility)"),
    "C06": (
        "Bounded symbolic model checking on the real sparse-model methods with ARBITRARY symbolic weights: selection == rows with a "
        "non-zero entry (all zero patterns forked); zero weight rows make the feature inert (identical prediction terms); one real "
        "_update_weights from an arbitrary state equals the real prox of C05 with threshold alpha*optimiser.learning_rate (symbolic, "
        "distinct from the constructor's rate; alpha=0 included), in place, and preserves 'zero skip row => zero first-layer row'; "
        "whole-group thresholding; check_groups completion exhaustively over small feature sets.",
        "Trusted: symx + z3; arbitrary pre-state (stronger than reachable); sparse-MLP wiring restricted to rows with non-zero skip "
        "weights (C05's scope); shapes d<=3, K,h<=2; exact reals.",
        "DESIGN.md §4 C06", "symbolic execution of the repository source (symx): symbolic data/weights/indices, decisions forked with z3 feasibility, post-conditions by term identity or solver query"),
    "C10": (
        "Exhaustive symbolic exploration of batching: the real fit/_batchify (plain, mlcl-decorated, categorical) under the stubbed "
        "environment with EVERY permutation the RNG may return (all n! per epoch, n<=3; n=4 thorough) x every batch_size in 1..n+1 "
        "and None x max_iter 1,2, on symbolic data and a symbolic affinity: partition per epoch, size bound, affinity block equal "
        "TERM BY TERM to A[rows][:,rows], step count, n_iter_, recorded mlcl indices.",
        "Trusted: the stub environment (identity validation, recorder optimiser, uninterpreted pairwise kernel, stubbed GEMINI values); "
        "n<=3 (4 thorough); alignment is identity of symbolic terms so numeric coincidence cannot mask a misalignment.",
        "DESIGN.md §4 C10", "symbolic execution of the repository source (symx): symbolic data/weights/indices, decisions forked with z3 feasibility, post-conditions by term identity or solver query"),
    "C15": (
        "Bounded symbolic model checking of Douglas: every feature mask of d<=3 through the real _init_params/_infer (masked columns "
        "replaced by fresh symbols: identical terms), leaf count, probability rows of every binning / merged leaf for symbolic "
        "temperature, arg-max bin == #cuts below the value for every ordering of symbolic cut points (exp monotonicity instances), "
        "and the real find_active_points on symbolic cuts and data against its definition on every path.",
        "Trusted: symx + z3; softmax replaced by its exp contract, exp strictly monotone; the T->0 limit statement is taken as "
        "'arg-max bin', n_cuts<=3 (4 thorough), <=3 data rows.",
        "DESIGN.md §4 C15", None),
    "C16": (
        "Symbolic execution of the REAL validators: each numeric hyper-parameter of each estimator / GEMINI constructor is a symbolic "
        "integer or real, every comparison made by the validation is forked, and on every feasible path 'accepted' must coincide with "
        "the documented domain (table in the check, not the code's constraint objects); check_groups on symbolic-integer group lists "
        "(accepted <=> in range and pairwise distinct; completed into a partition) plus an exhaustive concrete sweep; verdicts are "
        "history-independent (equal-but-differently-typed values, call sequences); wrong types, unknown options, malformed data, "
        "unfitted use and 'no fitted model after a failed fit' through the public API.",
        "Trusted: the documented-domain table; integers explored in [lo-2, lo+3]; the public-API part is concrete enumeration "
        "(scikit-learn's own validators do the work there; the solver has nothing to add and the evidence says so).",
        "DESIGN.md §4 C16", "symbolic execution of the repository source (symx): symbolic values/indices, decisions forked with z3 feasibility, post-conditions by term identity or path evaluation"),
    "C18": (
        "Bounded symbolic model checking: arbitrary symbolic fitted parameters, symbolic new points; for EVERY ordered selection of "
        "rows the real predict_proba/predict/Tree.predict on the selection equals the corresponding rows on the whole array (term "
        "identity / labels on every path); repeat call, copy, stored training object; KernelRIM through an uninterpreted kernel of "
        "(metric, params, x_i, t_j) so that kernel arguments and parameters are checked; a narrowing dtype in check_array is an "
        "uninterpreted rounding.  After-fit jobs: six families fitted by the REAL fit (objective and optimiser stubbed, one epoch, 11 rows "
        "from 2 symbolic rows), then arrays of the training shape that share most rows with the training data: every row as when predicted alone.",
        "Trusted: symx; m<=2 rows (3 thorough), shapes listed; 'all fitted states' = arbitrary parameter symbols of those shapes; "
        "Kauri trees = all shapes with <=3 leaves (4 thorough) over 2 features.",
        "DESIGN.md §4 C18", "symbolic execution of the repository source (symx): symbolic values/indices, decisions forked with z3 feasibility, post-conditions by term identity or path evaluation"),
    "C07": (
        "Symbolic model checking of the path control loop: the real _path / path run against an environment whose numerics are "
        "arbitrary values of a weight-version counter (symbolic real scores or NaN, symbolic integer feature counts, symbolic "
        "penalties; in-place version tagging of the weight arrays), with symbolic alpha, alpha_multiplier, keep_threshold, "
        "early_stopping_factor and min_features; every comparison of the loop is forked and each path's histories, stopping, "
        "best weights, restoration and argument sanitisation are compared with a reference model of the documented contract.",
        "Trusted: the reference model of the contract (written from the docstrings); the stub environment; unwinding bound: features "
        "are forced to 0 after 2 outer steps (3 thorough), max_iter<=2, max_patience<=2, <=2 batches, d in {2,3}.",
        "DESIGN.md §4 C07", "symbolic execution of the repository source (symx): symbolic values/indices, decisions forked with z3 feasibility, post-conditions by term identity or path evaluation"),
    "C14": (
        "Symbolic execution of the real constraint validation with symbolic-integer end points (every aliasing / non-contiguous "
        "pattern forked): rejected <=> self pair or a cannot-link pair inside a must-link component (union-find oracle); the real "
        "gradient decoration with every ordered batch selection, symbolic predictions, upstream gradient and factor: the gradient "
        "handed on differs by exactly +-factor*(y_a-y_b) at the members' batch positions (term identity); malformed inputs concretely.",
        "Trusted: symx; index values in [0,B] (one pair of each kind: B=7 quick, 9 thorough; otherwise B<=3 quick, <=4 thorough), m<=2 (3) must-link and c<=2 cannot-link pairs; check_array on "
        "pair lists stubbed to identity.",
        "DESIGN.md §4 C14", "symbolic execution of the repository source (symx): symbolic values/indices, decisions forked with z3 feasibility, post-conditions by term identity or path evaluation"),
    "C11": (
        "pairwise_kernels / pairwise_distances are recording uninterpreted functions returning fresh symbolic matrices keyed by "
        "(name, params, data identity).  For every estimator exposing kernel/metric/ovo/gemini/base_kernel x names x parameter "
        "dicts x callable x precomputed: get_gemini() class and settings, compute_affinity forwards exactly (name, params, X) / "
        "returns the callable's output / returns y / raises when the matrix is missing; KernelRIM and Kauri kernels likewise; a "
        "one-epoch symbolic fit, score and Kauri's split search receive IDENTICAL terms whether the kernel is named or passed "
        "precomputed.",
        "Trusted: what scikit-learn computes for a kernel or metric name is outside; same-fit uses stubbed GEMINI values and one epoch; "
        "this check is symbolic through uninterpreted functions and term identity, the solver only decides path feasibility.",
        "DESIGN.md §4 C11", "symbolic execution of the repository source (symx) under recording/uninterpreted stubs: identity of symbolic terms and recorded calls (z3 only for path feasibility)"),
    "C12": (
        "Claimed in part.  Non-interference: every attribute an earlier call could leave is set to stale symbols / sentinels before a "
        "one-epoch symbolic fit and no result term may depend on them (syntactic dependency analysis of the terms); fits after every "
        "sequence of <=2 earlier public calls equal the fresh fit term for term; caller's data / affinity / hyper-parameters are "
        "untouched (term identity); get_params/set_params/clone round trips for all 18 estimators; Kauri refits concretely. Also: the regularisation path hands the hyper-parameters back unchanged; histories include a fit on the same data and switched-off hyper-parameters; concrete witness over every named kernel / metric for 'inputs untouched'.",
        "Trusted: RNG stub = deterministic function of random_state (NumPy's generator outside); bit-for-bit float reproducibility "
        "outside; one epoch, stub environment; histories of length <= 2.",
        "DESIGN.md §4 C12", "symbolic execution of the repository source (symx) under recording/uninterpreted stubs: identity of symbolic terms and recorded calls (z3 only for path feasibility)"),
    "C04": (
        "Claimed in part.  The real fit (one or two epochs) of every gradient-trained family is executed symbolically over "
        "family x solver x batch_size in {1,n-1,n,n+1,None} x GEMINI kind under the stub environment; an exception on any feasible "
        "path is a counterexample; after fit, on every path: labels_ range/length, predict_proba rows positive and summing to one, "
        "predict == arg-max == labels_, score hands the GEMINI predict_proba(X) and the affinity of X, n_iter_, optimiser class.  "
        "A concrete public-API witness for all 18 estimators (real numerics, score recomputed from the definition) guards the stubbed "
        "part against vacuity. A sequence of fits in one process checks that each optimiser is built with its own estimator's learning rate and class.",
        "Trusted: stub environment; n=3 (2 for MLP families in the quick tier), K=2, one epoch; GEMINI values stubbed in the grid "
        "(C01/C02 cover them); termination/coherence beyond these shapes, convergence quality and scikit-learn's validation are outside.",
        "DESIGN.md §4 C04", "symbolic execution of the repository source (symx) under stubs: symbolic data/parameters, decisions forked with z3 feasibility, post-conditions by normal form / solver query / term identity"),
    "C17": (
        "Claimed in part: algebraic definedness.  The real GEMINI evaluate(return_grad=True), both proximal operators and Douglas' "
        "forward/backward run symbolically (ties and exact zeros reachable) on the families that are degenerate in exact arithmetic "
        "(duplicated samples / clusters, K=1, n=1, K=n one-hot, uniform predictions, constant or zero affinities, zero weight rows, "
        "coinciding cut points, duplicated columns); every output must be defined on every feasible path (guards proved by the "
        "solver; x/0 with x != 0 follows IEEE). Concrete float64 witnesses complement the exact-arithmetic jobs: every estimator on features scaled by 1/100/1000, affinities on duplicated samples, long saturated inputs; gradient shape on the degenerate families.",
        "NOT decided by the solver and stated as such: soft-max saturation and float under/overflow (no SMT theory of floating-point "
        "exp; in exact arithmetic exp never saturates) -- these are only sampled by the concrete float64 witnesses (features scaled by "
        "100 and 1000 for every estimator, 96- and 1500-row saturated / constant inputs, duplicated samples); whole path runs on degenerate data.",
        "DESIGN.md §4 C17", None),
    "C20": (
        "Claimed in part.  NumPy's generator is replaced by tagged symbolic draws (each draw remembers the distribution parameters "
        "it was requested with; labels are symbolic integers, forked); means, covariances, proportions symbolic: sample i is row i of "
        "the draw of the component named by its label, requested moments equal the documented ones (d=1: std^2 == variance, by "
        "solver), proportions forwarded, shapes/label ranges, rejection <=> documented conditions (comparisons forked; symbolic "
        "eigenvalues); Student-t formula by normal form; gstm / celeux_* forward the documented parameters.  Independently of the "
        "primitives an implementation is built from (choice / uniform; normal / multivariate_normal / standard normals times a factor), "
        "on five concrete parameter sets: P(label=k) as the sum of the measures of the path conditions in the uniform symbol (z3 "
        "optimisation queries) and mean / covariance of the sample from its affine form in tagged Gaussian symbols.",
        "NOT claimed: 'within sampling error' and seed determinism (NumPy's RNG); constants of celeux_two's dependent variables. "
        "Replays use sample statistics of the real generators.",
        "DESIGN.md §4 C20", "symbolic execution of the repository source (symx) under stubs: symbolic data/parameters, decisions forked with z3 feasibility, post-conditions by normal form / solver query / term identity"),
}

NOT_APPLICABLE = {
}

PENDING_REASON = "check not built yet in this session (design in DESIGN.md §4); listed here until its harness is committed"


def main():
    props = [json.loads(l) for l in open(os.path.join(HERE, "properties.jsonl"))]
    checks = []
    na = []
    for p in props:
        pid = p["id"]
        if pid in CLAIMED:
            text, note, ref, tech = CLAIMED[pid]
            checks.append({
                "property_id": pid,
                "quick_cmd": f"./vt check {pid} --tier quick",
                "thorough_cmd": f"./vt check {pid} --tier thorough",
                "evidence_file": f"/verif/evidence/{pid}.json",
                "replay_cmd_template": "./vt replay {path}",
                "engine": "symx",
                "level_claimed": {"category": "model_checking", "text": text, "design_ref": ref},
                "level_note": note,
                "technique": tech or TECH,
            })
        else:
            na.append({"property_id": pid, "reason": NOT_APPLICABLE.get(pid, PENDING_REASON)})
    man = {
        "version": 1,
        "setup_cmd": "./bootstrap.sh",
        "hooks": {
            "guard": "GEMCLUS_VERIF",
            "enable": "no source hook is needed: checks load /repo's current source through symx.loader (import hook + AST transform) and swap module globals from the harness",
            "baseline_off_cmd": "cd /repo && /venv/bin/python -m pytest -ra -q -p no:cacheprovider --timeout=900 --continue-on-collection-errors",
            "source_commits": [],
            "add_only": True,
        },
        "engines": [{
            "name": "symx",
            "path": "/verif/symx",
            "serves_properties": sorted(CLAIMED),
            "kind_free_text": "symbolic executor for NumPy code: factored rational normal form over z3 reals, transcendental atoms, "
                              "re-execution DFS over decisions, fresh-solver property queries, concrete replay",
        }],
        "checks": checks,
        "not_applicable": na,
        "notes": "Exit codes: 0 no violation among explored obligations (undischarged ones are counted in the evidence); 1 replay-confirmed "
                 "violation not listed in known_findings.json; 3 harness error. See DESIGN.md.",
    }
    with open(os.path.join(HERE, "MANIFEST.json"), "w") as fh:
        json.dump(man, fh, indent=1)
    print("MANIFEST.json:", len(checks), "checks,", len(na), "not_applicable")


if __name__ == "__main__":
    main()
