#!/bin/bash
# usage: [DEST=<j>] tools/keep_seed.sh <PROP> <i> <test-paths...>   (worktree /tmp/wt_<PROP>, seed_out/patch<i>.diff; stored as <PROP>-<j>, default j=i)
# confirms: demo passes clean, fails patched; given tests pass patched; then stores under /verif/seeded/<PROP>-<i>/
PROP="$1"; I="$2"; shift 2; J="${DEST:-$I}"
WT=/tmp/wt_$PROP
cd "$WT" || exit 9
git checkout -q -- gemclus
/venv/bin/python seed_out/demo$I.py >/tmp/seed_clean.log 2>&1; C=$?
git apply seed_out/patch$I.diff || { echo "patch does not apply"; exit 9; }
/venv/bin/python seed_out/demo$I.py >/tmp/seed_patched.log 2>&1; P=$?
/venv/bin/python -m pytest -q -p no:cacheprovider "$@" 2>&1 | tail -1 > /tmp/seed_tests.log; 
git checkout -q -- gemclus
echo "demo clean exit=$C patched exit=$P ; tests (patched): $(cat /tmp/seed_tests.log)"
if [ "$C" = "0" ] && [ "$P" != "0" ]; then
  D=/verif/seeded/$PROP-$J; mkdir -p "$D"
  cp seed_out/patch$I.diff "$D/patch.diff"; cp seed_out/demo$I.py "$D/demo.py"; cp seed_out/notes$I.txt "$D/notes.txt"
  echo "$(cat /tmp/seed_tests.log)" > "$D/tests_patched.txt"
  echo "kept $D"
else
  echo "NOT kept"
fi
