import json, jsonschema, glob, sys
m=json.load(open('/verif/MANIFEST.json')); s=json.load(open('/root/.vp/MANIFEST.schema.json')); jsonschema.validate(m,s)
es=json.load(open('/root/.vp/EVIDENCE.schema.json'))
for f in sorted(glob.glob('/verif/evidence/*.json')):
    jsonschema.validate(json.load(open(f)), es)
print('manifest + evidence valid:', len(m['checks']), 'checks')
