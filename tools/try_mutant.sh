#!/bin/sh
# usage: tools/try_mutant.sh <patch.diff> <PROP> [extra vt args]   -- applies the patch to /repo, runs the check, reverts.
P="$1"; shift; ID="$1"; shift
cd /repo || exit 9
if [ -n "$(git status --porcelain --untracked-files=no)" ]; then echo "/repo not clean"; exit 9; fi
git apply "$P" || { echo "patch does not apply"; exit 9; }
cd /verif && ./vt check "$ID" "$@" ; RC=$?
cd /repo && git checkout -- . 
echo "exit=$RC"
